"""Back-end drivers: Verus on rendered units, Kani on a scratch copy of the crate."""
import glob
import hashlib
import json
import os
import re
import shutil
import subprocess
import sys
import time

HERE = os.path.dirname(os.path.abspath(__file__))
VERIF = os.path.dirname(HERE)
CACHE = os.path.join(VERIF, '.cache')
sys.path.insert(0, HERE)
import extract  # noqa: E402
from rsparse import Source, ExtractError  # noqa: E402

VERUS_TOOLCHAIN = '1.98.1-x86_64-unknown-linux-gnu'
EXT_CRATES = {  # crate -> (registry dir glob, lib path, edition, extra rustc args)
    'fnv': ('fnv-1.0.7', 'lib.rs', '2018', []),
    'smallvec': ('smallvec-1.13.1', 'src/lib.rs', '2018', []),
    'byteorder': ('byteorder-1.5.0', 'src/lib.rs', '2021', ['--cfg', 'feature="std"']),
}

# Verus diagnostics that mean "a proof obligation was not discharged"
PROOF_FAIL_PATTERNS = [
    r'postcondition not satisfied', r'precondition not satisfied', r'assertion failed',
    r'invariant not satisfied', r'possible arithmetic (under|over)flow', r'possible division by zero',
    r'possible bit shift', r'decreases not satisfied', r'unreachable', r'index out of bounds',
    r'cannot show invariant', r'assertion failure', r'loop invariant', r'recommendation not met',
    r'could not show termination', r'failed precondition', r'might panic', r'panic',
    r'possible truncation', r'underflow', r'overflow', r'unable to prove', r'post-?condition',
]
PROOF_FAIL_RE = re.compile('|'.join(PROOF_FAIL_PATTERNS))
RESOURCE_RE = re.compile(r'[Rr]esource limit|rlimit|timed? ?out|took too long')


def env_offline():
    e = dict(os.environ)
    e.update({'CARGO_NET_OFFLINE': 'true', 'GOPROXY': 'off', 'PIP_NO_INDEX': '1'})
    return e


def ensure_rlibs():
    """Build the few dependency rlibs Verus links against (from the vendored registry, offline)."""
    os.makedirs(os.path.join(CACHE, 'rlib'), exist_ok=True)
    out = {}
    for name, (d, lib, ed, extra) in EXT_CRATES.items():
        dst = os.path.join(CACHE, 'rlib', 'lib%s.rlib' % name)
        if not os.path.exists(dst):
            cands = glob.glob(os.path.expanduser('~/.cargo/registry/src/*/%s' % d))
            if not cands:
                raise RuntimeError('registry source for %s not found' % d)
            cmd = ['rustc', '+' + VERUS_TOOLCHAIN, '--edition', ed, '--crate-type', 'rlib', '--crate-name', name,
                   '--cap-lints', 'allow', os.path.join(cands[0], lib), '-o', dst] + extra
            subprocess.run(cmd, check=True, env=env_offline(), stdout=subprocess.DEVNULL, stderr=subprocess.PIPE)
        out[name] = dst
    return out


def fn_ranges(text):
    """[(name, start_line, end_line)] of fns in a generated file (qualified by impl type when inside an impl)."""
    s = Source('<gen>', text)
    impls = [(re.sub(r'^(unsafe )?impl(<[^>]*(?:<[^>]*>[^>]*)*>)?\s*', '', h), o, c) for h, o, c in s.impl_blocks()]
    res = []
    from rsparse import depth0_find, match_close
    for mm in re.finditer(r'\bfn\s+(\w+)', s.m):
        j = depth0_find(s.m, mm.end(), len(s.m), '{;')
        if j < 0 or s.m[j] == ';':
            continue
        try:
            c = match_close(s.m, j)
            # a brace group inside a contract clause (`ensures match x { .. },`, `requires ({ .. }),`) is not the body: the body is
            # the first depth-0 group that is not followed by `,` / an operator continuing the clause
            while True:
                k = c + 1
                while k < len(s.m) and s.m[k] in ' \t\r\n':
                    k += 1
                if k < len(s.m) and (s.m[k] == ',' or s.m[k:k + 2] in ('&&', '||', '==') or s.m[k] == ')'):
                    j2 = depth0_find(s.m, k, len(s.m), '{;')
                    if j2 < 0 or s.m[j2] == ';':
                        break
                    j, c = j2, match_close(s.m, j2)
                    continue
                break
        except ExtractError:
            continue
        name = mm.group(1)
        for h, o, cc in impls:
            if o < mm.start() < cc:
                ty = h.split(' for ')[-1]
                ty = re.sub(r'<.*$', '', ty).strip()
                name = ty + '::' + name
                break
        res.append((name, s.line_of(mm.start()), s.line_of(c)))
    return res


def run_verus_unit(unit, repo, work, tier='quick', seed=0, extra_args=None, rlimit=None):
    """Render units/<unit>.rs.in against `repo`, run Verus, classify every diagnostic.
    Returns a dict; never raises for expected conditions."""
    t0 = time.time()
    res = {'backend': 'verus', 'unit': unit, 'status': 'undecided', 'functions': [], 'failures': [], 'undecided': [],
           'meta': None, 'cmd': '', 'wall_s': 0.0, 'smt_ms': 0}
    tpl = os.path.join(VERIF, 'units', unit + '.rs.in')
    gen = os.path.join(work, unit + '.rs')
    try:
        r = extract.Renderer(repo)
        text, linemap, meta = r.render(tpl)
    except ExtractError as e:
        res['undecided'].append('extraction: %s' % e)
        res['wall_s'] = time.time() - t0
        return res
    open(gen, 'w').write(text)
    res['meta'] = meta
    res['generated'] = gen
    res['assumption_scan'] = assumption_scan(text)
    rl = ensure_rlibs()
    cmd = ['verus', gen, '--crate-name', unit.replace('-', '_'), '--triggers-mode', 'silent', '--output-json', '--time-expanded',
           '--multiple-errors', '16', '--num-threads', '8']
    needed = set(re.findall(r'^\s*(?:pub\s+)?use\s+(\w+)', text, re.M)) | set(re.findall(r'\b(fnv|smallvec)::', text))
    for name, path in rl.items():
        if name in needed:
            cmd += ['--extern', '%s=%s' % (name, path)]
    if rlimit:
        cmd += ['--rlimit', str(rlimit)]
    if seed:
        cmd += ['--smt-option', 'smt.random_seed=%d' % (seed % 1000)]
    cmd += (extra_args or []) + ['--', '--error-format=json', '-Awarnings']
    res['cmd'] = ' '.join(cmd)
    p = subprocess.run(cmd, cwd=work, env=env_offline(), stdout=subprocess.PIPE, stderr=subprocess.PIPE, text=True)
    res['verus_exit'] = p.returncode
    try:
        out = json.loads(p.stdout)
    except Exception:
        out = None
    ranges = fn_ranges(text)
    lines = text.split('\n')

    def enclosing(line):
        best = None
        for name, a, b in ranges:
            if a <= line <= b and (best is None or a >= best[1]):
                best = (name, a, b)
        return best[0] if best else '?'

    def clause_tags(line):
        """property tags of a contract clause: the nearest marker comment `// ---- C01 / C06: ...` above it inside the same contract"""
        i = line - 1
        while 0 <= i < len(lines):
            t = lines[i].strip()
            mk = re.match(r'//\s*----\s*([^:]*):', t)
            if mk and re.search(r'\bC\d\d\b', mk.group(1)):
                return re.findall(r'\bC\d\d\b', mk.group(1))
            if i != line - 1 and (re.match(r'(requires|ensures)\b', t) or re.match(r'(pub\s+)?(proof\s+|spec\s+)?fn\b', t)):
                return None
            if i == line - 1 and re.match(r'(requires|ensures)\b', t):
                return None
            i -= 1
        return None

    diags = []
    for l in p.stderr.split('\n'):
        l = l.strip()
        if not l.startswith('{'):
            if l and not l.startswith(('warning', 'note', '[rust_verify/')):
                diags.append({'level': 'raw', 'message': l, 'spans': [], 'children': []})
            continue
        try:
            diags.append(json.loads(l))
        except Exception:
            diags.append({'level': 'raw', 'message': l[:300], 'spans': [], 'children': []})
    res['raw_stderr_tail'] = p.stderr[-3000:] if p.returncode not in (0,) and not out else ''
    hard = []
    for dg in diags:
        lvl = dg.get('level')
        msg = dg.get('message', '')
        if lvl in ('warning', 'note', 'help') and not RESOURCE_RE.search(msg):
            continue
        if msg.startswith('aborting due to'):
            continue
        spans = dg.get('spans') or []
        prim = [s for s in spans if s.get('is_primary')] or spans
        line = prim[0]['line_start'] if prim else 0
        sec = [s for s in spans if not s.get('is_primary')]
        fn = enclosing(line) if line else '?'
        origin = linemap[line - 1] if 0 < line <= len(linemap) else None
        item = {
            'fn': fn, 'message': msg, 'gen_line': line,
            'text': lines[line - 1].strip()[:200] if 0 < line <= len(lines) else '',
            'origin': origin,
            'related': [{'gen_line': s['line_start'], 'label': s.get('label'), 'text': lines[s['line_start'] - 1].strip()[:200],
                         'origin': linemap[s['line_start'] - 1] if s['line_start'] <= len(linemap) else None} for s in sec],
        }
        if (msg.startswith('postcondition not satisfied') or 'post-condition of closure' in msg) and line:
            item['tags'] = clause_tags(line)
        if RESOURCE_RE.search(msg):
            res['undecided'].append('resource limit in %s: %s' % (fn, msg))
        elif lvl == 'error' and PROOF_FAIL_RE.search(msg):
            res['failures'].append(item)
        elif lvl in ('error', 'raw'):
            hard.append(item)
    if out and 'times-ms' in out:
        tm = out['times-ms']
        res['smt_ms'] = tm.get('smt', {}).get('total', 0)
        res['verus_total_ms'] = tm.get('total', 0)
        for mod in tm.get('smt', {}).get('smt-run-module-times', []):
            for f in mod.get('function-breakdown', []):
                nm = f['function'].split('::', 1)[1] if '::' in f['function'] else f['function']
                res['functions'].append({'fn': nm, 'mode': f.get('mode:'), 'ms': f.get('time'), 'rlimit': f.get('rlimit'), 'success': f.get('success')})
    if out:
        res['verified'] = out['verification-results'].get('verified')
        res['errors'] = out['verification-results'].get('errors')
    if hard and not res['functions']:
        # front-end error (type error, unsupported construct, ...): nothing was decided
        for h in hard[:5]:
            res['undecided'].append('verus front end: %s at %s (gen line %d: %s)' % (h['message'][:200], h['fn'], h['gen_line'], h['text'][:80]))
    elif hard:
        for h in hard[:5]:
            res['undecided'].append('verus: %s at %s' % (h['message'][:200], h['fn']))
    if out is None and not res['undecided']:
        res['undecided'].append('verus produced no JSON (exit %s): %s' % (p.returncode, p.stderr[-400:]))
    if res['undecided']:
        res['status'] = 'undecided'
    elif res['failures'] or any(not f['success'] for f in res['functions']):
        res['status'] = 'fail'
    else:
        res['status'] = 'ok'
    res['wall_s'] = time.time() - t0
    return res


SCAN_WORDS = ['assume(', 'admit(', 'external_body', 'assume_specification', 'axiom fn', 'external_type_specification',
              '#[verifier::external]', 'uninterp spec fn', 'kani::stub', 'transmute', 'kani::assume']


def assumption_scan(text):
    """Mechanical scan for trusted constructs; returns list of 'construct @ line: text'."""
    found = []
    ls = text.split('\n')
    for i, l in enumerate(ls):
        st = l.strip()
        if st.startswith('//'):
            continue
        for w in SCAN_WORDS:
            if w in l:
                ctx = st
                if st.startswith('#[') and i + 1 < len(ls):
                    k = i + 1
                    while k < len(ls) and ls[k].strip().startswith('#['):
                        k += 1
                    ctx = st + ' ' + (ls[k].strip() if k < len(ls) else '')
                found.append('%s: %s' % (w.rstrip('('), ctx[:160]))
                break
    # dedupe keeping order
    seen, out = set(), []
    for f in found:
        if f not in seen:
            seen.add(f)
            out.append(f)
    return out


# ------------------------------------------------------------------------------------------------
# Kani
# ------------------------------------------------------------------------------------------------

def make_scratch(repo, work):
    dst = os.path.join(work, 'repo')
    if os.path.exists(dst):
        shutil.rmtree(dst)
    subprocess.run(['rsync', '-a', '--exclude', 'target', '--exclude', '.git', repo.rstrip('/') + '/', dst + '/'], check=True)
    return dst


def kani_prepare(repo, work, modfiles, blocks_renderer=None):
    """Copy the working tree and attach harness modules.
    modfiles: {crate-relative source file: [harness file (absolute, under /verif/kani)]}.
    A harness file may be a template (*.rs.in) -> rendered against the scratch copy first."""
    scratch = make_scratch(repo, work)
    attached = []
    metas = []
    for rel, hfiles in modfiles.items():
        p = os.path.join(scratch, rel)
        if not os.path.exists(p):
            raise ExtractError('source file %s missing' % rel)
        add = '\n'
        for hf in hfiles:
            src = os.path.join(work, os.path.basename(hf))
            if not hf.endswith('.in'):
                shutil.copy(hf, src)
            if hf.endswith('.in'):
                r = extract.Renderer(scratch)
                text, linemap, meta = r.render(hf)
                src = os.path.join(work, os.path.basename(hf)[:-3])
                open(src, 'w').write(text)
                metas.append(meta)
            modname = '__verif_' + re.sub(r'\W', '_', os.path.basename(src).split('.')[0])
            add += '#[cfg(kani)]\n#[path = "%s"]\nmod %s;\n' % (src, modname)
            attached.append((rel, src, modname))
        with open(p, 'a') as f:
            f.write(add)
    return scratch, attached, metas


KANI_RESULT_RE = re.compile(r'VERIFICATION:- (SUCCESSFUL|FAILED)')


def kani_run_harness(scratch, harness, timeout_s=600, extra=None, mem_gb=24, target_dir=None):
    """Run one harness; returns dict(status ok|fail|undecided, checks, failed_checks[], time_s, output_tail)."""
    t0 = time.time()
    env = env_offline()
    env['CARGO_TARGET_DIR'] = target_dir or os.path.join(CACHE, 'kani-target')
    cmd = ['cargo', 'kani', '-Z', 'function-contracts', '-Z', 'stubbing', '--harness', harness, '--exact'] + (extra or [])
    # ulimit -v guards against CBMC exhausting memory (=> undecided, never an alarm)
    sh = 'ulimit -v %d; exec timeout %d %s' % (mem_gb * 1024 * 1024, timeout_s, ' '.join(cmd))
    p = subprocess.run(['bash', '-c', sh], cwd=scratch, env=env, stdout=subprocess.PIPE, stderr=subprocess.STDOUT, text=True)
    out = p.stdout
    r = {'harness': harness, 'status': 'undecided', 'checks': 0, 'failed_checks': [], 'time_s': round(time.time() - t0, 1),
         'cmd': ' '.join(cmd), 'exit': p.returncode, 'stubs': re.findall(r'- Stub: (.*)', out)}
    m = KANI_RESULT_RE.search(out)
    mc = re.search(r'\*\* (\d+) of (\d+) failed', out)
    if mc:
        r['checks'] = int(mc.group(2))
    ms = re.search(r'Verification Time: ([0-9.]+)s', out)
    if ms:
        r['solver_s'] = float(ms.group(1))
    if p.returncode == 124:
        r['reason'] = 'timeout after %ds' % timeout_s
    elif m and m.group(1) == 'SUCCESSFUL' and p.returncode == 0:
        r['status'] = 'ok'
        if re.search(r'Status: UNSATISFIED|\bUNSATISFIABLE\b.*cover', out):
            pass
        # every cover must be satisfied (vacuity guard)
        covers = re.findall(r'Check \d+: ([^\n]*cover[^\n]*)\n\s*- Status: (\w+)', out)
        unsat = [c for c, st in covers if st not in ('SATISFIED',)]
        r['covers'] = len(covers)
        if unsat:
            r['status'] = 'undecided'
            r['reason'] = 'vacuity guard: cover not satisfied: %s' % unsat[:3]
    elif m and m.group(1) == 'FAILED':
        fails = re.findall(r'Check \d+: ([^\n]*)\n\s*- Status: FAILURE\n\s*- Description: "([^"\n]*)"(?:\n\s*- Location: ([^\n]*))?', out)
        r['failed_checks'] = [{'check': a, 'description': b, 'location': c} for a, b, c in fails]
        # only assertion/arith/bounds failures count; unwinding or unsupported-construct failures are "undecided"
        real = [f for f in r['failed_checks'] if not re.search(r'unwinding assertion|unsupported|not supported|reachability', f['description'] + f['check'])]
        if real:
            r['status'] = 'fail'
            r['failed_checks'] = real
        else:
            r['reason'] = 'only unwinding/unsupported checks failed: %s' % [f['description'] for f in r['failed_checks'][:3]]
    else:
        r['reason'] = 'no verdict (exit %d): %s' % (p.returncode, out[-600:])
    r['output_tail'] = out[-4000:]
    r['full_output'] = out
    return r


def kani_run_many(scratch, harnesses, jobs=8, **kw):
    """Run harnesses in parallel (the first one alone, to warm the build cache)."""
    from concurrent.futures import ThreadPoolExecutor
    results = []
    if not harnesses:
        return results
    first = harnesses[0]
    results.append(kani_run_harness(scratch, first[0], **dict(kw, **first[1])))
    rest = harnesses[1:]
    if rest:
        with ThreadPoolExecutor(max_workers=jobs) as ex:
            futs = [ex.submit(kani_run_harness, scratch, h[0], **dict(kw, **h[1])) for h in rest]
            for f in futs:
                results.append(f.result())
    return results


def kani_run_batch(scratch, harnesses, jobs=12, timeout_s=1500, harness_timeout='10m', mem_gb=48, target_dir=None, extra=None):
    """One `cargo kani` invocation for a list of fully qualified harness names (exact match), verified in parallel.
    Returns (results {harness: dict}, build_error or None, raw output)."""
    t0 = time.time()
    env = env_offline()
    env['CARGO_TARGET_DIR'] = target_dir or os.path.join(CACHE, 'kani-target')
    cmd = ['cargo', 'kani', '-Z', 'function-contracts', '-Z', 'stubbing', '-Z', 'unstable-options', '--harness-timeout', harness_timeout,
           '--exact', '-j', str(jobs), '--output-format', 'terse'] + (extra or [])
    for h in harnesses:
        cmd += ['--harness', h]
    sh = 'ulimit -v %d; exec timeout %d %s' % (mem_gb * 1024 * 1024, timeout_s, ' '.join(cmd))
    p = subprocess.run(['bash', '-c', sh], cwd=scratch, env=env, stdout=subprocess.PIPE, stderr=subprocess.STDOUT, text=True)
    out = p.stdout
    results = {h: {'harness': h, 'status': 'undecided', 'checks': 0, 'failed_checks': [], 'stubs': [], 'reason': 'no verdict in output', 'cmd': ' '.join(cmd)} for h in harnesses}
    build_error = None
    if re.search(r'error: could not compile|Failed to execute cargo|error\[E\d+\]', out):
        errs = re.findall(r'(?m)^error(?:\[E\d+\])?: [^\n]*(?:\n[^\n]*){0,6}', out)
        build_error = '\n'.join(errs[:4])[:2000]
    # split into per-thread blocks
    cur = {}   # thread -> harness
    blocks = re.split(r'(?m)^(?=Thread \d+: )', out)
    for b in blocks:
        m = re.match(r'Thread (\d+): (.*)', b)
        if not m:
            continue
        th = m.group(1)
        mc = re.match(r'Thread \d+: Checking harness (\S+?)\.\.\.', b)
        if mc:
            cur[th] = mc.group(1)
            continue
        ms = re.match(r'Thread \d+:\s+- Stub: (.*)', b)
        if ms and th in cur and cur[th] in results:
            results[cur[th]]['stubs'].append(ms.group(1).strip())
            continue
        if 'VERIFICATION' in b and th in cur and cur[th] in results:
            r = results[cur[th]]
            r['output_tail'] = b[-3000:]
            mm = re.search(r'\*\* (\d+) of (\d+) failed', b)
            if mm:
                r['checks'] = int(mm.group(2))
                r['n_failed'] = int(mm.group(1))
            mcv = re.search(r'\*\* (\d+) of (\d+) cover properties satisfied', b)
            if mcv:
                r['covers'] = int(mcv.group(2))
                r['covers_sat'] = int(mcv.group(1))
            mt = re.search(r'Verification Time: ([0-9.]+)s', b)
            if mt:
                r['solver_s'] = round(float(mt.group(1)), 2)
            v = re.search(r'VERIFICATION:- (SUCCESSFUL|FAILED)', b)
            fails = re.findall(r'Failed Checks: ([^\n]*)\n\s*File: ([^\n]*)', b)
            r['failed_checks'] = [{'description': a.strip(), 'location': c.strip()} for a, c in fails]
            if v and v.group(1) == 'SUCCESSFUL':
                if mcv and int(mcv.group(1)) != int(mcv.group(2)):
                    r['status'] = 'undecided'
                    r['reason'] = 'vacuity guard: %s of %s cover properties satisfied' % (mcv.group(1), mcv.group(2))
                elif r['checks'] == 0:
                    r['reason'] = 'zero checks generated'
                else:
                    r['status'] = 'ok'
                    r.pop('reason', None)
            elif v:
                real = [f for f in r['failed_checks'] if not re.search(r'unwinding assertion|unsupported|not supported|is not currently supported', f['description'])]
                if 'timed out' in b or 'TIMEOUT' in b or 'out of memory' in b.lower() or 'std::bad_alloc' in b:
                    r['reason'] = 'solver timeout / out of memory'
                elif real:
                    r['status'] = 'fail'
                    r['failed_checks'] = real
                    r.pop('reason', None)
                else:
                    r['reason'] = 'only unwinding/unsupported checks failed: %s' % [f['description'] for f in r['failed_checks'][:3]]
    if p.returncode == 124:
        for r in results.values():
            if r['status'] == 'undecided' and r.get('reason') == 'no verdict in output':
                r['reason'] = 'batch timeout after %ds' % timeout_s
    if build_error:
        for r in results.values():
            r['status'] = 'undecided'
            r['reason'] = 'harness crate did not compile: ' + build_error[:300]
    return results, build_error, out, round(time.time() - t0, 1)
