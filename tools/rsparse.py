"""Minimal Rust source scanner used by the extractor.

It does NOT parse Rust; it masks comments / string / char literals so that bracket
matching and keyword search are reliable, and it locates items (impl blocks, fns,
structs, enums, consts, type aliases) and loops by bracket matching.  Anything it
cannot locate unambiguously raises ExtractError (=> exit 2 "undecided", never an alarm).
"""
import re


class ExtractError(Exception):
    pass


def mask(src):
    """Return a string of the same length as src in which the *contents* of comments,
    string literals and char literals are replaced by spaces (newlines kept)."""
    out = list(src)
    i, n = 0, len(src)

    def blank(a, b):
        for k in range(a, b):
            if out[k] != '\n':
                out[k] = ' '

    while i < n:
        c = src[i]
        if c == '/' and i + 1 < n and src[i + 1] == '/':
            j = src.find('\n', i)
            if j < 0:
                j = n
            blank(i, j)
            i = j
        elif c == '/' and i + 1 < n and src[i + 1] == '*':
            depth, j = 1, i + 2
            while j < n and depth:
                if src.startswith('/*', j):
                    depth += 1
                    j += 2
                elif src.startswith('*/', j):
                    depth -= 1
                    j += 2
                else:
                    j += 1
            blank(i, j)
            i = j
        elif c == '"' or (c in 'rb' and re.match(r'(?:b?r#*"|b")', src[i:i + 8]) and (i == 0 or not (src[i - 1].isalnum() or src[i - 1] == '_'))):
            m = re.match(r'(b?)(r(#*))?"', src[i:])
            raw = m.group(2) is not None
            hashes = m.group(3) or ''
            j = i + m.end()
            if raw:
                endtok = '"' + hashes
                k = src.find(endtok, j)
                if k < 0:
                    raise ExtractError('unterminated raw string')
                blank(j, k)
                i = k + len(endtok)
            else:
                k = j
                while k < n and src[k] != '"':
                    k += 2 if src[k] == '\\' else 1
                blank(j, k)
                i = k + 1
        elif c == "'":
            m = re.match(r"'(?:\\(?:x[0-9a-fA-F]{2}|u\{[0-9a-fA-F_]+\}|.)|[^\\'])'", src[i:])
            if m:
                blank(i + 1, i + m.end() - 1)
                i += m.end()
            else:
                i += 1  # lifetime
        elif c == 'b' and src.startswith("b'", i) and (i == 0 or not (src[i - 1].isalnum() or src[i - 1] == '_')):
            i += 1
        else:
            i += 1
    return ''.join(out)


OPEN = {'{': '}', '(': ')', '[': ']'}
CLOSE = {v: k for k, v in OPEN.items()}


def match_close(m, i):
    """m: masked text; i: index of an opening bracket. Returns index of its closer."""
    stack = []
    for j in range(i, len(m)):
        c = m[j]
        if c in OPEN:
            stack.append(c)
        elif c in CLOSE:
            if not stack or stack[-1] != CLOSE[c]:
                raise ExtractError('unbalanced bracket at offset %d' % j)
            stack.pop()
            if not stack:
                return j
    raise ExtractError('unterminated bracket at offset %d' % i)


def depth0_find(m, start, end, chars):
    """first index in [start,end) of any char in `chars` at bracket depth 0 relative to start."""
    d = 0
    for j in range(start, end):
        c = m[j]
        if d == 0 and c in chars:
            return j
        if c in OPEN:
            d += 1
        elif c in CLOSE:
            d -= 1
            if d < 0:
                return -1
    return -1


class Source:
    def __init__(self, path, text):
        self.path = path
        self.text = text
        self.m = mask(text)

    def line_of(self, off):
        return self.text.count('\n', 0, off) + 1

    # ---- items -------------------------------------------------------------------
    def impl_blocks(self):
        """yield (header_text_normalised, body_open, body_close) for every impl block."""
        res = []
        for mm in re.finditer(r'(?m)^[ \t]*(?:unsafe\s+)?impl\b', self.m):
            o = depth0_find(self.m, mm.end(), len(self.m), '{')
            if o < 0:
                continue
            hdr = ' '.join(self.text[mm.start():o].split())
            res.append((hdr, o, match_close(self.m, o)))
        return res

    def find_impl(self, pattern):
        """pattern: e.g. 'ClaimTable' (inherent impl of that type), 'Protocol for Frame'."""
        hits = []
        for hdr, o, c in self.impl_blocks():
            h = re.sub(r'^(unsafe )?impl(<[^>]*(?:<[^>]*>[^>]*)*>)?\s*', '', hdr)  # drop generics
            h = re.sub(r'\s+where\b.*$', '', h)
            if ' for ' in pattern:
                tr, ty = pattern.split(' for ')
                if ' for ' in h:
                    htr, hty = h.split(' for ', 1)
                    if re.sub(r'<.*$', '', htr.strip()).split('::')[-1] == tr.strip() and re.sub(r'<.*$', '', hty.strip()) == ty.strip():
                        hits.append((hdr, o, c))
            else:
                if ' for ' not in h and re.sub(r'<.*$', '', h.strip()) == pattern.strip():
                    hits.append((hdr, o, c))
        return hits

    def find_fn(self, name, region=None):
        """Locate `fn name` that is a direct child of region (open, close) or of the file.
        Returns dict(start, fn_kw, sig_open (index of body '{'), body_close, has_body)."""
        lo, hi = (region[0] + 1, region[1]) if region else (0, len(self.m))
        hits = []
        for mm in re.finditer(r'\bfn\s+' + re.escape(name) + r'\b', self.m[lo:hi]):
            pos = lo + mm.start()
            # direct child: bracket depth between lo and pos must be 0
            d = 0
            ok = True
            for ch in self.m[lo:pos]:
                if ch in OPEN:
                    d += 1
                elif ch in CLOSE:
                    d -= 1
            if d != 0:
                continue
            # qualifiers before `fn`
            ls = self.m.rfind('\n', 0, pos) + 1
            pre = self.m[ls:pos]
            if not re.fullmatch(r'\s*(?:pub(?:\([^)]*\))?\s+)?(?:const\s+)?(?:unsafe\s+)?', pre):
                continue
            j = depth0_find(self.m, lo + mm.end(), hi, '{;')
            if j < 0:
                continue
            if self.m[j] == ';':
                hits.append(dict(start=ls, fn_kw=pos, sig_open=j, body_close=j, has_body=False))
            else:
                hits.append(dict(start=ls, fn_kw=pos, sig_open=j, body_close=match_close(self.m, j), has_body=True))
        return hits

    def find_item(self, kind, name):
        """kind in struct/enum/const/type/static/trait. Returns (start, end) incl. trailing ; or }."""
        hits = []
        for mm in re.finditer(r'(?m)^[ \t]*(?:pub(?:\([^)]*\))?\s+)?' + kind + r'\s+' + re.escape(name) + r'\b', self.m):
            j = depth0_find(self.m, mm.end(), len(self.m), '{;(=')
            if j < 0:
                continue
            if self.m[j] == '=':
                e = depth0_find(self.m, j, len(self.m), ';')
                hits.append((mm.start(), e + 1))
            elif self.m[j] == ';':
                hits.append((mm.start(), j + 1))
            elif self.m[j] == '(':
                c = match_close(self.m, j)
                e = depth0_find(self.m, c + 1, len(self.m), ';')
                hits.append((mm.start(), e + 1))
            else:
                hits.append((mm.start(), match_close(self.m, j) + 1))
        return hits

    # ---- loops -------------------------------------------------------------------
    def loops(self, lo, hi):
        """Loops in [lo,hi) in textual order: list of dict(kw, kw_pos, body_open, body_close, in_pos)."""
        res = []
        for mm in re.finditer(r'\b(for|while|loop)\b', self.m[lo:hi]):
            kw = mm.group(1)
            pos = lo + mm.start()
            after = lo + mm.end()
            if kw == 'for':
                if re.match(r'\s*<', self.m[after:]):
                    continue  # for<'a>
            j = depth0_find(self.m, after, hi, '{')
            if j < 0:
                continue
            in_pos = -1
            if kw == 'for':
                seg = self.m[after:j]
                # ` in ` at depth 0
                d = 0
                for k in range(len(seg)):
                    ch = seg[k]
                    if ch in OPEN:
                        d += 1
                    elif ch in CLOSE:
                        d -= 1
                    elif d == 0 and re.match(r'\bin\b', seg[k:]) and (k == 0 or not (seg[k - 1].isalnum() or seg[k - 1] == '_')):
                        in_pos = after + k
                        break
                if in_pos < 0:
                    continue
            res.append(dict(kw=kw, kw_pos=pos, body_open=j, body_close=match_close(self.m, j), in_pos=in_pos))
        return res

    def find_anchor(self, anchor, lo, hi, nth=None):
        """Offsets of the literal text `anchor` in [lo,hi) (searched in the raw text, but only
        where the first char is not inside a comment/string)."""
        hits = []
        k = lo
        while True:
            k = self.text.find(anchor, k, hi)
            if k < 0:
                break
            if self.m[k] == self.text[k] or self.text[k] in '"\'':
                hits.append(k)
            k += 1
        if nth is not None:
            if nth < 1 or nth > len(hits):
                raise ExtractError('anchor %r: occurrence %d of %d not found' % (anchor, nth, len(hits)))
            return [hits[nth - 1]]
        return hits

    def stmt_end(self, pos, hi):
        """End (exclusive) of the statement starting at pos: the first ';' at depth 0."""
        j = depth0_find(self.m, pos, hi, ';')
        if j < 0:
            raise ExtractError('statement at line %d has no terminating ;' % self.line_of(pos))
        return j + 1
