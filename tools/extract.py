#!/usr/bin/env python3
"""Verbatim extractor + contract splicer.

Renders a unit template (`*.rs.in`) into a single Rust/Verus file by pasting items of
/repo byte-for-byte and splicing contracts at declared places.  The only changes made to
pasted text are the rules R1..R9 / B1 below; every application is recorded in the meta
data that ends up in the evidence file.

Directive grammar (lines starting with `//@`; all other lines inside a directive block are
content of the preceding sub-directive; outside a block they are copied as they are):

  //@ fn <file> <ImplPattern>::<name>        ImplPattern: `Type`, `Trait for Type`, or empty (`::name`) for a free fn
  //@   as <newname>                         rename the fn (only for free-standing copies)
  //@   ret <ident>                          name the result:  -> T   becomes  -> (ident: T)
  //@   sigsub "<old>" => "<new>"            rewrite inside the signature (recorded)
  //@   contract                             content goes between signature and body
  //@   loop <n> [binder <id>]               content (invariant/decreases) goes before the body of the n-th loop
  //@   before "<anchor>" [#k] | after "<anchor>" [#k]    content inserted at the anchor (k-th occurrence, default: must be unique)
  //@   subst "<old>" => "<new>" [#k|all|opt] rule <R>    allowed rewrite of body text (R2 R5 R7 R8 B1), must match (opt: may match nowhere)
  //@   dropstmt "<prefix>" [all]            R1: drop the statement(s) starting with <prefix>
  //@ end
  //@ item <kind> <file> <Name>              kind: struct enum const type static ; pasted with attributes/doc comments stripped
  //@   attrs / keep a,b,c / subst ...       attrs: content placed before the item; keep: R4 field pruning
  //@ end
  //@ block <file> <ImplPattern>::<fn> from "<a>" [#k] to "<b>" [#k]
  //@   head        content: the wrapper signature (parameters = the block's free variables)
  //@   contract    content
  //@   tail        content appended after the block text (e.g. the result expression)
  //@   loop / before / after / subst / dropstmt as for fn
  //@ end
"""
import hashlib
import json
import os
import re
import sys

sys.path.insert(0, os.path.dirname(os.path.abspath(__file__)))
from rsparse import Source, ExtractError, match_close, depth0_find  # noqa: E402

RULES = {
    'R1': 'drop log macro calls (debug!/info!/warn!/error!/trace! -> `()`), named hook statements, doc comments, attributes',
    'R2': 'rename closure parameter `_` to a fresh identifier',
    'R3': 'remove `pub` / `pub(crate)` visibility',
    'R4': 'struct pruning: keep only the listed fields of a large struct',
    'R5': 'pinned trusted statement: a statement Verus cannot type is replaced by a call to an external_body fn with a written contract',
    'R6': 'type alias RangeList = SmallVec<[Range;4]> -> Vec<Range>',
    'R7': 'desugar `for x in &mut E` to `for x in E.iter_mut()` and name the iterator (`it:`)',
    'R8': 'closure contract: parameter types, named result and ensures added to a closure literal, body kept',
    'R9': 'Verus-only additions: ghost lets, proof blocks, reject_recursive_types, PartialEqSpecImpl',
    'B1': 'block contract: statement range wrapped in a fn whose parameters are its free variables; `self.f` renamed to parameter `f`',
    'R10': 'assert_ne!(a, b) / assert_eq!(a, b) -> assert!(a != b) / assert!(a == b): same panic condition (Verus has no spec for core::panicking::assert_failed)',
    'B2': 'a statement range that is under contract as a block of its own (same anchors) is replaced by a call to a contract-only stand-in',
    'T1': 'type-level rewrite needed by the verifier front end (recorded verbatim)',
}

LOG_RE = re.compile(r'\b(debug|info|warn|error|trace)!\s*\(')


class Piece:
    """A fragment of output text with an origin label."""
    __slots__ = ('text', 'origin')

    def __init__(self, text, origin):
        self.text = text
        self.origin = origin


def parse_quoted(s):
    """parse a leading "..." (with \\" and \\n escapes) -> (value, rest)"""
    s = s.lstrip()
    if not s.startswith('"'):
        raise ExtractError('expected quoted string in directive: %r' % s)
    i, out = 1, []
    while i < len(s):
        c = s[i]
        if c == '\\' and i + 1 < len(s):
            nx = s[i + 1]
            out.append({'n': '\n', 't': '\t', '"': '"', '\\': '\\'}.get(nx, '\\' + nx))
            i += 2
        elif c == '"':
            return ''.join(out), s[i + 1:]
        else:
            out.append(c)
            i += 1
    raise ExtractError('unterminated quoted string in directive: %r' % s)


class Edit:
    def __init__(self, start, end, text, origin, prio=0):
        self.start, self.end, self.text, self.origin, self.prio = start, end, text, origin, prio


def apply_edits(src, lo, hi, edits, base_origin):
    """Return list[Piece] for src.text[lo:hi] with edits (absolute offsets) applied."""
    edits = sorted(edits, key=lambda e: (e.start, 0 if e.end == e.start else 1, e.prio))
    pieces, pos = [], lo
    # an edit that lies inside a larger replaced/dropped range is void (e.g. a built-in rewrite inside a block replaced as a whole)
    big = [(e.start, e.end) for e in edits if e.end - e.start > 0]
    edits = [e for e in edits if not any(((a < e.start < b) if e.end == e.start else (a <= e.start and e.end <= b and (b - a) > (e.end - e.start))) for a, b in big)]
    for e in edits:
        if e.start < pos:
            raise ExtractError('overlapping edits near line %d (%r)' % (src.line_of(e.start), e.text[:40]))
        if e.start > pos:
            pieces.append(Piece(src.text[pos:e.start], ('src', src.path, src.line_of(pos))))
        if e.text:
            pieces.append(Piece(e.text, e.origin))
        pos = e.end
    if pos < hi:
        pieces.append(Piece(src.text[pos:hi], ('src', src.path, src.line_of(pos))))
    return pieces


class Renderer:
    def __init__(self, repo):
        self.repo = repo
        self.sources = {}
        self.meta = {'items': [], 'rules_applied': {}, 'dropped': []}

    def src(self, rel):
        if rel not in self.sources:
            p = os.path.join(self.repo, rel)
            if not os.path.exists(p):
                raise ExtractError('source file %s missing' % rel)
            self.sources[rel] = Source(rel, open(p).read())
        return self.sources[rel]

    def rule(self, r, what):
        self.meta['rules_applied'].setdefault(r, []).append(what)

    # ------------------------------------------------------------------------------
    def locate_fn(self, rel, path):
        s = self.src(rel)
        if '::' not in path:
            raise ExtractError('fn path must be Impl::name or ::name: %r' % path)
        implpat, name = path.rsplit('::', 1)
        if implpat:
            impls = s.find_impl(implpat)
            if not impls:
                raise ExtractError('%s: no `impl %s` block' % (rel, implpat))
            hits = []
            for hdr, o, c in impls:
                for h in s.find_fn(name, (o, c)):
                    h['impl'] = hdr
                    hits.append(h)
        else:
            hits = s.find_fn(name)
        hits = [h for h in hits if h['has_body']]
        if len(hits) != 1:
            raise ExtractError('%s: fn %s found %d times (need exactly 1)' % (rel, path, len(hits)))
        return s, hits[0]

    def common_edits(self, s, lo, hi, subs, label):
        """edits for sub-directives shared by fn/block: loop, before, after, subst, dropstmt + built-in R1."""
        edits = []
        loops_box = [None]
        self._cur_subs = subs
        for sd in subs:
            try:
                self._apply_sub(s, lo, hi, sd, label, edits, loops_box)
            except ExtractError as e:
                # a hint that cannot be placed any more (the code around it changed) is dropped, never fatal:
                # the contract itself is still checked; a failure of that function is then reported as undecided
                self.meta.setdefault('lost_hints', []).append({'fn': label, 'directive': '%s %s' % (sd['kind'], sd['arg'][:60]), 'reason': str(e)})
        self._builtin_edits(s, lo, hi, label, edits)
        return edits

    def _apply_sub(self, s, lo, hi, sd, label, edits, loops_box):
        if True:
            k, arg, content = sd['kind'], sd['arg'], sd['content']
            org = ('splice', label, sd['line'])
            loops = loops_box[0]
            if k == 'loop':
                mm = re.fullmatch(r'(\d+)(?:\s+binder\s+(\w+))?', arg.strip())
                if not mm:
                    raise ExtractError('bad loop directive: %r' % arg)
                if loops is None:
                    loops = s.loops(lo, hi)
                    loops_box[0] = loops
                n = int(mm.group(1))
                if n < 1 or n > len(loops):
                    raise ExtractError('%s: loop %d not found (%d loops)' % (label, n, len(loops)))
                L = loops[n - 1]
                if mm.group(2):
                    if L['kw'] != 'for':
                        raise ExtractError('%s: binder on non-for loop %d' % (label, n))
                    p = L['in_pos'] + 2
                    edits.append(Edit(p, p, ' %s:' % mm.group(2), org))
                    self.rule('R7', '%s loop %d: iterator named `%s`' % (label, n, mm.group(2)))
                edits.append(Edit(L['body_open'], L['body_open'], '\n' + content + '\n', org, prio=1))
            elif k in ('before', 'after'):
                anchor, rest = parse_quoted(arg)
                mm = re.fullmatch(r'\s*(?:#(\d+))?\s*', rest)
                if not mm:
                    raise ExtractError('bad %s directive: %r' % (k, arg))
                hits = s.find_anchor(anchor, lo, hi, int(mm.group(1)) if mm.group(1) else None)
                if len(hits) != 1:
                    raise ExtractError('%s: anchor %r matches %d times' % (label, anchor, len(hits)))
                p = hits[0] if k == 'before' else hits[0] + len(anchor)
                edits.append(Edit(p, p, '\n' + content + '\n', org))
            elif k == 'closure':
                # R8: closure literal right after <anchor>: `|p..| body` -> `|typed| -> (ret) <content: ensures..> { body }` (body text kept)
                anchor, rest = parse_quoted(arg)
                mm = re.fullmatch(r'\s*(?:#(\d+))?\s*(?:bind\s+(\w+)\s+)?params\s+"([^"]*)"\s+ret\s+"([^"]*)"\s*', rest)
                if not mm:
                    raise ExtractError('bad closure directive: %r' % arg)
                hits = s.find_anchor(anchor, lo, hi, int(mm.group(1)) if mm.group(1) else None)
                if len(hits) != 1:
                    raise ExtractError('%s: closure anchor %r matches %d times' % (label, anchor, len(hits)))
                cpos = hits[0] + len(anchor)
                mc = re.match(r'\s*(move\s+)?\|', s.m[cpos:])
                if not mc:
                    raise ExtractError('%s: no closure literal after %r' % (label, anchor))
                bar1 = cpos + mc.end() - 1
                bar2 = s.m.find('|', bar1 + 1)
                if bar2 < 0 or bar2 >= hi:
                    raise ExtractError('%s: unterminated closure parameter list after %r' % (label, anchor))
                bstart = bar2 + 1
                # body ends at the first `,` or closing bracket at depth 0
                d0 = 0
                bend = -1
                for j in range(bstart, hi):
                    ch = s.m[j]
                    if ch in '([{':
                        d0 += 1
                    elif ch in ')]}':
                        if d0 == 0:
                            bend = j
                            break
                        d0 -= 1
                    elif ch == ',' and d0 == 0:
                        bend = j
                        break
                if bend < 0:
                    raise ExtractError('%s: cannot delimit closure body after %r' % (label, anchor))
                body = s.text[bstart:bend].strip()
                # substitutions declared for this item also apply inside the kept closure body (edits inside a replaced range are void)
                for sd2 in getattr(self, '_cur_subs', []):
                    if sd2['kind'] == 'subst':
                        o2, r2 = parse_quoted(sd2['arg'])
                        n2, _ = parse_quoted(r2.strip()[2:])
                        if o2 in body:
                            body = body.replace(o2, n2)
                typed = '|%s| -> (%s)\n%s\n{ %s }' % (mm.group(3), mm.group(4), content, body)
                if mm.group(2):
                    ls = s.text.rfind('\n', lo, hits[0]) + 1
                    if ls < lo:
                        ls = lo
                    edits.append(Edit(ls, ls, 'let %s = %s;\n' % (mm.group(2), typed), org))
                    edits.append(Edit(cpos, bend, mm.group(2), ('subst', label, sd['line'])))
                else:
                    edits.append(Edit(cpos, bend, typed, org))
                self.rule('R8', '%s: closure after %r typed (%s) -> (%s); body kept: %s' % (label, anchor, mm.group(3), mm.group(4), ' '.join(body.split())[:80]))
            elif k == 'replace':
                # B2: the statement range from anchor <a> to anchor <b> (a block that is under contract in its own right, in this or the
                # other back end) is replaced by the content (a call to the contract-only stand-in of that block)
                mm = re.match(r'\s*from\s+', arg)
                if not mm:
                    raise ExtractError('bad replace directive: %r' % arg)
                a_, rest = parse_quoted(arg[mm.end():])
                m2 = re.match(r'\s*(?:#(\d+))?\s*to\s+', rest)
                if not m2:
                    raise ExtractError('bad replace directive: %r' % arg)
                b_, rest2 = parse_quoted(rest[m2.end():])
                m3 = re.fullmatch(r'\s*(?:#(\d+))?\s*', rest2)
                ha = s.find_anchor(a_, lo, hi, int(m2.group(1)) if m2.group(1) else None)
                if len(ha) != 1:
                    raise ExtractError('%s: replace from-anchor %r matches %d times' % (label, a_, len(ha)))
                hb = s.find_anchor(b_, ha[0], hi, int(m3.group(1)) if m3 and m3.group(1) else None)
                if len(hb) != 1:
                    raise ExtractError('%s: replace to-anchor %r matches %d times' % (label, b_, len(hb)))
                edits.append(Edit(ha[0], hb[0] + len(b_), content, org))
                self.rule('B2', '%s: lines %d-%d (block under its own contract) replaced by a call to its stand-in' % (label, s.line_of(ha[0]), s.line_of(hb[0])))
            elif k == 'start':
                edits.append(Edit(lo, lo, '\n' + content + '\n', org))
            elif k == 'finish':
                edits.append(Edit(hi, hi, '\n' + content + '\n', org, prio=5))
            elif k == 'subst':
                old, rest = parse_quoted(arg)
                rest = rest.strip()
                if not rest.startswith('=>'):
                    raise ExtractError('bad subst directive: %r' % arg)
                new, rest = parse_quoted(rest[2:])
                mm = re.fullmatch(r'\s*(?:#(\d+)|(all|opt))?\s*rule\s+(\w+)\s*', rest)
                if not mm or mm.group(3) not in RULES:
                    raise ExtractError('subst needs `rule <R>` with a known rule: %r' % arg)
                hits = s.find_anchor(old, lo, hi, int(mm.group(1)) if mm.group(1) else None)
                # `opt`: a rewrite of a FAMILY of equivalent spellings (e.g. a < b next to b > a): applies wherever it matches, may match nowhere
                if (not hits and mm.group(2) != 'opt') or (len(hits) != 1 and not mm.group(2)):
                    raise ExtractError('%s: subst %r matches %d times' % (label, old, len(hits)))
                for h in hits:
                    edits.append(Edit(h, h + len(old), new, ('subst', label, sd['line'])))
                if hits:
                    self.rule(mm.group(3), '%s: %r -> %r (%d×)' % (label, old, new, len(hits)))
            elif k == 'dropstmt':
                pref, rest = parse_quoted(arg)
                allf = rest.strip() == 'all'
                hits = s.find_anchor(pref, lo, hi)
                if not hits or (len(hits) != 1 and not allf):
                    raise ExtractError('%s: dropstmt %r matches %d times' % (label, pref, len(hits)))
                for h in hits:
                    e = s.stmt_end(h, hi)
                    edits.append(Edit(h, e, '', org))
                    self.meta['dropped'].append('%s:%d %s' % (s.path, s.line_of(h), ' '.join(s.text[h:e].split())[:120]))
                self.rule('R1', '%s: dropped statement(s) starting %r (%d×)' % (label, pref, len(hits)))
    def _builtin_edits(self, s, lo, hi, label, edits):
        # built-in R1: log macros -> ()
        for mm in LOG_RE.finditer(s.m[lo:hi]):
            a = lo + mm.start()
            o = lo + mm.end() - 1
            c = match_close(s.m, o)
            edits.append(Edit(a, c + 1, '()', ('drop', label, s.line_of(a))))
            self.meta['dropped'].append('%s:%d %s' % (s.path, s.line_of(a), ' '.join(s.text[a:c + 1].split())[:120]))
            self.rule('R1', '%s: log macro at %s:%d' % (label, s.path, s.line_of(a)))
        # built-in R2: closure parameter `_` -> `_kN`
        for n_, mm in enumerate(re.finditer(r'\|\s*_\s*\|', s.m[lo:hi])):
            a = lo + mm.start()
            edits.append(Edit(a, lo + mm.end(), '|_k%d|' % n_, ('subst', label, s.line_of(a))))
            self.rule('R2', '%s: closure parameter `_` renamed at %s:%d' % (label, s.path, s.line_of(a)))
        # built-in R10: assert_ne!/assert_eq! with two plain arguments
        for mm in re.finditer(r'\bassert_(ne|eq)!\s*\(', s.m[lo:hi]):
            a = lo + mm.start()
            o = lo + mm.end() - 1
            c = match_close(s.m, o)
            j = depth0_find(s.m, o + 1, c, ',')
            if j < 0 or depth0_find(s.m, j + 1, c, ',') >= 0:
                raise ExtractError('%s: assert_%s! with a message is not supported' % (label, mm.group(1)))
            x, y = s.text[o + 1:j].strip(), s.text[j + 1:c].strip()
            edits.append(Edit(a, c + 1, 'assert!(%s %s %s)' % (x, '!=' if mm.group(1) == 'ne' else '==', y), ('subst', label, s.line_of(a))))
            self.rule('R10', '%s: assert_%s!(%s, %s)' % (label, mm.group(1), x, y))
        return edits

    def render_fn(self, d):
        rel, path = d['args'][0], d['args'][1]
        try:
            s, f = self.locate_fn(rel, path)
        except ExtractError as e:
            if d.get('rest', '').strip() == 'optional':
                self.meta.setdefault('optional_missing', []).append(path.lstrip(':'))
                return [Piece('// (optional item %s is not present in this tree)\n' % path, ('template', d['line']))]
            raise
        label = path.lstrip(':')
        subs = d['subs']
        sig_lo, sig_hi = f['fn_kw'], f['sig_open']
        sig = s.text[sig_lo:sig_hi].rstrip()
        real_sig = ' '.join(sig.split())
        contract = ''
        for sd in subs:
            if sd['kind'] == 'as':
                sig = re.sub(r'^fn\s+\w+', 'fn ' + sd['arg'].strip(), sig)
            elif sd['kind'] == 'ret':
                depth_arrow = sig.rfind('->')
                if depth_arrow < 0:
                    raise ExtractError('%s: `ret` on fn without return type' % label)
                # make sure the arrow is the fn's, not inside parameter list
                close = sig.rfind(')', 0, depth_arrow)
                ty = sig[depth_arrow + 2:].strip()
                where = ''
                mw = re.search(r'\bwhere\b', ty)
                if mw:
                    where = ' ' + ty[mw.start():]
                    ty = ty[:mw.start()].strip()
                sig = sig[:depth_arrow] + '-> (%s: %s)%s' % (sd['arg'].strip(), ty, where)
            elif sd['kind'] == 'sigsub':
                old, rest = parse_quoted(sd['arg'])
                new, rest2 = parse_quoted(rest.strip()[2:])
                if sig.count(old) != 1:
                    raise ExtractError('%s: sigsub %r matches %d times' % (label, old, sig.count(old)))
                sig = sig.replace(old, new)
                self.rule('T1', '%s signature: %r -> %r' % (label, old, new))
            elif sd['kind'] == 'contract':
                contract = sd['content']
        body_lo, body_hi = f['sig_open'], f['body_close'] + 1
        edits = self.common_edits(s, body_lo + 1, body_hi - 1, subs, label)
        pieces = [Piece(sig + '\n', ('sig', rel, s.line_of(sig_lo)))]
        if contract:
            cl = [x for x in subs if x['kind'] == 'contract'][0]['line']
            pieces.append(Piece(contract + '\n', ('contract', label, cl)))
        pieces += apply_edits(s, body_lo, body_hi, edits, None)
        pieces.append(Piece('\n', ('template', 0)))
        body_txt = s.text[body_lo:body_hi]
        self.meta['items'].append({
            'kind': 'fn', 'file': rel, 'path': label, 'impl': f.get('impl', ''), 'signature': real_sig,
            'lines': [s.line_of(f['fn_kw']), s.line_of(f['body_close'])],
            'sha256': hashlib.sha256((real_sig + body_txt).encode()).hexdigest()[:16],
            'splices': len([x for x in subs if x['kind'] in ('loop', 'before', 'after', 'contract', 'start', 'closure', 'finish', 'replace')]),
        })
        return pieces

    def render_block(self, d):
        rel, path = d['args'][0], d['args'][1]
        rest = d['rest']
        mm = re.match(r'\s*from\s+', rest)
        if not mm:
            raise ExtractError('block needs from "<a>"|start to|until "<b>"|end: %r' % rest)
        rest = rest[mm.end():]
        from_start = False
        if rest.startswith('start'):
            from_start = True
            a, rest = '', rest[len('start'):]
        else:
            a, rest = parse_quoted(rest)
        m2 = re.match(r'\s*(?:#(\d+))?\s*(to|until)\s+', rest)
        if not m2:
            raise ExtractError('block needs to|until "<b>": %r' % rest)
        ka = int(m2.group(1)) if m2.group(1) else None
        exclusive = m2.group(2) == 'until'
        to_end = rest[m2.end():].strip() == 'end'
        if not to_end:
            b, rest = parse_quoted(rest[m2.end():])
            m3 = re.fullmatch(r'\s*(?:#(\d+))?\s*', rest)
            kb = int(m3.group(1)) if m3 and m3.group(1) else None
        s, f = self.locate_fn(rel, path)
        flo, fhi = f['sig_open'] + 1, f['body_close']
        if from_start:
            ha = [flo]
        else:
            ha = s.find_anchor(a, flo, fhi, ka)
        if len(ha) != 1:
            raise ExtractError('block %s: from-anchor %r matches %d times' % (path, a, len(ha)))
        if to_end:
            lo, hi = ha[0], fhi
        else:
            hb = s.find_anchor(b, ha[0] + (1 if (exclusive and not from_start) else 0), fhi, kb)
            if len(hb) < 1 or (kb is None and len(hb) != 1):
                raise ExtractError('block %s: to-anchor %r matches %d times after from-anchor' % (path, b, len(hb)))
            lo, hi = ha[0], (hb[0] if exclusive else hb[0] + len(b))
        head = contract = tail = ''
        name = None
        for sd in d['subs']:
            if sd['kind'] == 'head':
                head = sd['content']
                mn = re.search(r'\bfn\s+(\w+)', head)
                name = mn.group(1) if mn else None
            elif sd['kind'] == 'contract':
                contract = sd['content']
            elif sd['kind'] == 'tail':
                tail = sd['content']
        if not head or not name:
            raise ExtractError('block %s: head with fn name required' % path)
        label = name
        edits = self.common_edits(s, lo, hi, d['subs'], label)
        pieces = [Piece(head + '\n', ('template', d['line']))]
        if contract:
            cl = [x for x in d['subs'] if x['kind'] == 'contract'][0]['line']
            pieces.append(Piece(contract + '\n', ('contract', label, cl)))
        pieces.append(Piece('{\n', ('template', d['line'])))
        pieces += apply_edits(s, lo, hi, edits, None)
        pieces.append(Piece('\n' + tail + '\n}\n', ('template', d['line'])))
        txt = s.text[lo:hi]
        self.rule('B1', 'block %s = %s %s lines %d-%d' % (name, rel, path, s.line_of(lo), s.line_of(hi)))
        self.meta['items'].append({
            'kind': 'block', 'file': rel, 'path': name, 'enclosing_fn': path.lstrip(':'),
            'lines': [s.line_of(lo), s.line_of(hi)], 'text': ' '.join(txt.split())[:400],
            'sha256': hashlib.sha256(txt.encode()).hexdigest()[:16],
            'dropped': 'the rest of %s' % path.lstrip(':'),
        })
        return pieces

    def render_item(self, d):
        kind, rel, name = d['args'][0], d['args'][1], d['args'][2]
        s = self.src(rel)
        hits = s.find_item(kind, name)
        if len(hits) != 1:
            raise ExtractError('%s: %s %s found %d times' % (rel, kind, name, len(hits)))
        lo, hi = hits[0]
        label = '%s %s' % (kind, name)
        edits = []
        attrs = ''
        keep = None
        for sd in d['subs']:
            if sd['kind'] == 'attrs':
                attrs = sd['content']
            elif sd['kind'] == 'keep':
                keep = [x.strip() for x in sd['arg'].split(',') if x.strip()]
        edits += self.common_edits(s, lo, hi, [x for x in d['subs'] if x['kind'] in ('subst', 'before', 'after')], label)
        # strip attributes and doc comments inside the item (R1), `pub` (R3)
        for mm in re.finditer(r'(?m)(^[ \t]*)?#\[', s.m[lo:hi]):
            o = lo + mm.end() - 1
            c = match_close(s.m, o)
            e = c + 1
            if mm.group(1) is not None and s.text[e:e + 1] == '\n':
                e += 1                      # attribute on its own line: drop the line
            else:
                while s.text[e:e + 1] == ' ':
                    e += 1                  # inline attribute (e.g. `#[source] io::Error`)
            edits.append(Edit(lo + mm.start(), e, '', ('drop', label, 0)))
        for mm in re.finditer(r'(?m)^[ \t]*///.*\n', s.text[lo:hi]):
            edits.append(Edit(lo + mm.start(), lo + mm.end(), '', ('drop', label, 0)))
        keeppub = any(sd['kind'] == 'keeppub' for sd in d['subs'])
        if not keeppub:
            for mm in re.finditer(r'\bpub(\([^)]*\))?\s+', s.m[lo:hi]):
                edits.append(Edit(lo + mm.start(), lo + mm.end(), '', ('drop', label, 0)))
        if keep is not None:
            o = s.m.find('{', lo, hi)
            c = match_close(s.m, o)
            # fields: split at depth-0 commas
            pos = o + 1
            fields = []
            def field_comma(p0):
                """next comma at bracket depth 0 AND angle depth 0 (generic arguments such as HashMap<String, String>)"""
                d = a = 0
                k = p0
                while k < c:
                    ch = s.m[k]
                    if ch in '([{':
                        d += 1
                    elif ch in ')]}':
                        d -= 1
                    elif ch == '<':
                        a += 1
                    elif ch == '>' and s.m[k - 1] != '-' and a > 0:
                        a -= 1
                    elif ch == ',' and d == 0 and a == 0:
                        return k
                    k += 1
                return -1
            while pos < c:
                j = field_comma(pos)
                e = j if j >= 0 else c
                seg = s.m[pos:e]
                mf = re.search(r'(?:pub(?:\([^)]*\))?\s+)?(\w+)\s*:', re.sub(r'#\[[^\]]*\]', lambda m_: ' ' * len(m_.group(0)), seg))
                if mf:
                    fields.append((mf.group(1), pos, e + 1 if j >= 0 else e))
                pos = e + 1
            names = [x[0] for x in fields]
            for k in keep:
                if k not in names:
                    raise ExtractError('%s: field %s to keep does not exist' % (label, k))
            for fname, a, b in fields:
                if fname not in keep:
                    edits.append(Edit(a, b, '', ('drop', label, 0)))
            # overlapping edits (attribute/pub removal inside dropped fields): drop inner ones
            drops = [(e.start, e.end) for e in edits if e.text == '' and (e.end - e.start) > 0]
            edits = [e for e in edits if not any(a <= e.start and e.end <= b and (a, b) != (e.start, e.end) for a, b in drops)]
            self.rule('R4', '%s: kept fields %s of %s' % (label, keep, names))
        # dedupe identical edits
        seen, ded = set(), []
        for e in edits:
            key = (e.start, e.end, e.text)
            if key not in seen:
                seen.add(key)
                ded.append(e)
        pieces = []
        if attrs:
            pieces.append(Piece(attrs + '\n', ('template', d['line'])))
        pieces += apply_edits(s, lo, hi, ded, None)
        pieces.append(Piece('\n', ('template', 0)))
        if not keeppub:
            self.rule('R3', '%s: visibility removed' % label)
        self.meta['items'].append({'kind': kind, 'file': rel, 'path': name, 'lines': [s.line_of(lo), s.line_of(hi - 1)],
                                   'sha256': hashlib.sha256(s.text[lo:hi].encode()).hexdigest()[:16]})
        return pieces

    # ------------------------------------------------------------------------------
    def render(self, template_path):
        lines = open(template_path).read().split('\n')
        # `//@ include <file>` anywhere (also inside the content of a sub-directive): the file's lines are spliced in first, so that
        # a clause shared by two units (the contract one unit proves and another assumes) exists once
        k = 0
        while k < len(lines):
            st0 = lines[k].strip()
            if st0.startswith('//@ include '):
                inc = os.path.join(os.path.dirname(os.path.abspath(template_path)), st0.split()[2])
                if not os.path.exists(inc):
                    raise ExtractError('include %s missing' % inc)
                txt = open(inc).read()
                for kv in st0.split()[3:]:      # NAME=text pairs replace @NAME@ in the included file
                    if '=' in kv:
                        nm, val = kv.split('=', 1)
                        txt = txt.replace('@' + nm + '@', val)
                lines[k:k + 1] = [l for l in txt.split('\n')]
                self.meta.setdefault('includes', []).append(st0.split()[2])
                continue
            k += 1
        pieces = []
        i = 0
        while i < len(lines):
            ln = lines[i]
            st = ln.strip()
            if st.startswith('//@ ') and st.split()[1] in ('fn', 'item', 'block'):
                toks = st.split()
                kind = toks[1]
                d = {'kind': kind, 'line': i + 1, 'subs': []}
                if kind == 'item':
                    d['args'] = toks[2:5]
                elif kind == 'fn':
                    # //@ fn <file> <Impl pattern (may contain spaces, e.g. `Default for Config`)>::<name> [optional]
                    tail = st.split(None, 3)[3] if len(toks) > 3 else ''
                    opt = tail.endswith(' optional')
                    if opt:
                        tail = tail[:-len(' optional')]
                    d['args'] = [toks[2], tail.strip()]
                    d['rest'] = 'optional' if opt else ''
                else:
                    tail = st.split(None, 3)[3] if len(toks) > 3 else ''
                    k = tail.find(' from ')
                    d['args'] = [toks[2], (tail[:k] if k >= 0 else tail).strip()]
                    d['rest'] = tail[k + 1:] if k >= 0 else ''
                i += 1
                cur = None
                while True:
                    if i >= len(lines):
                        raise ExtractError('%s:%d directive without //@ end' % (template_path, d['line']))
                    l2 = lines[i]
                    s2 = l2.strip()
                    if s2 == '//@ end':
                        break
                    if s2.startswith('//@'):
                        body = s2[3:].strip()
                        kw = body.split(None, 1)
                        cur = {'kind': kw[0], 'arg': kw[1] if len(kw) > 1 else '', 'content': '', 'line': i + 1}
                        d['subs'].append(cur)
                    else:
                        if cur is None:
                            raise ExtractError('%s:%d content before sub-directive' % (template_path, i + 1))
                        cur['content'] += ('\n' if cur['content'] else '') + l2
                    i += 1
                i += 1
                if kind == 'fn':
                    pieces += self.render_fn(d)
                elif kind == 'block':
                    pieces += self.render_block(d)
                else:
                    pieces += self.render_item(d)
            elif st.startswith('//@ include '):
                inc = os.path.join(os.path.dirname(os.path.abspath(template_path)), st.split()[2])
                if not os.path.exists(inc):
                    raise ExtractError('include %s missing' % inc)
                sub_lines = open(inc).read().split('\n')
                lines[i:i + 1] = sub_lines
            else:
                pieces.append(Piece(ln + '\n', ('template', i + 1)))
                i += 1
        # assemble + line map
        out, linemap = [], []
        cur_line_origin = None
        for p in pieces:
            t = p.text
            segs = t.split('\n')
            for k, seg in enumerate(segs):
                if k > 0:
                    linemap.append(cur_line_origin)
                    cur_line_origin = None
                if seg.strip() and cur_line_origin is None:
                    o = p.origin
                    if o[0] == 'src':
                        o = ('src', o[1], o[2] + k)
                    cur_line_origin = o
            out.append(t)
        linemap.append(cur_line_origin)
        text = ''.join(out)
        # R3 on signatures: handled by starting at `fn`; nothing else to do
        self.meta['rules_legend'] = {k: RULES[k] for k in self.meta['rules_applied']}
        return text, linemap, self.meta


def main():
    import argparse
    ap = argparse.ArgumentParser()
    ap.add_argument('template')
    ap.add_argument('-o', '--out', required=True)
    ap.add_argument('--repo', default='/repo')
    a = ap.parse_args()
    try:
        r = Renderer(a.repo)
        text, linemap, meta = r.render(a.template)
    except ExtractError as e:
        print('EXTRACT-UNDECIDED: %s' % e, file=sys.stderr)
        sys.exit(2)
    open(a.out, 'w').write(text)
    json.dump({'linemap': linemap, 'meta': meta}, open(a.out + '.map.json', 'w'))


if __name__ == '__main__':
    main()
