#!/usr/bin/env python3
"""Regenerates section 9 of DESIGN.md (the seeded-change table) from seeded/*/meta.json."""
import glob, json, os, re
V = os.path.dirname(os.path.dirname(os.path.abspath(__file__)))
rows = []
for d in sorted(glob.glob(os.path.join(V, 'seeded', '*', ''))):
    m = json.load(open(d + 'meta.json'))
    rows.append((os.path.basename(d.rstrip('/')), m))
late = [sid for sid, m in rows if re.search(r'first (MISSED|UNDECIDED)|would have been MISSED|first no-failing-input|at first no-failing', m['caught_by'])]
esc = lambda t: t.replace('|', '\\|')
txt = '''## 9. Seeded changes (independent sub-agents, each given only the property text and a scratch worktree)

%d changes in thirteen batches. Each was produced by a fresh sub-agent that saw only the property text (plus, from batch 2 on, a one-line
"do not reuse this site" hint naming earlier changes) and its own worktree under /tmp; each was **confirmed** with
`tools/seed_confirm.sh` (existing suite passes with the change; the demonstration fails with it and passes without it; log in
`seeded/<id>/confirm.log`) and **evaluated** with `tools/seed_eval.sh` (the change applied in a scratch worktree, the checks pointed at
it with `--repo`; /repo itself is never touched). All %d are reported as a VIOLATION by the check of their property now; %d of them
(%s) were missed, undecided, or caught only under a neighbouring property when first evaluated - or would have been, had the unit that now
catches them not been written in between - and led to the extensions named in their rows (that is what the seeds are for).

| seed | property | change | needs | outcome |
|---|---|---|---|---|
''' % (len(rows), len(rows), len(late), ' '.join(late))
for sid, m in rows:
    also = m.get('also') or []
    txt += '| %s | %s%s | %s | %s | %s |\n' % (sid, m['property'], (' (+' + ','.join(also) + ')') if also else '', esc(m['change']), esc(m['needs']), esc(m['caught_by']))
txt += '''
After the last extension every seed was re-evaluated against the check of its property (`tools/seed_regress.sh`; one line per seed in
`seeded/REGRESSION.txt`): all exit 1 with a VIOLATION line.

What the misses taught (all fixed, see the rows): contracts that stop one call level too low (C03-2, C15-2, C02-2, C01-2: the
function that *decides* - who ticks, what refreshes, when plaintext passes - was environment); opaque values that should have been
observed (C02-3: key material; C17-2, C18-2: what reaches the hash / KDF; C06-3: the field values of a decoded handshake message);
blocks that start at an anchor inside the function instead of at its start (C06-2); drivers that only exercise "everything given"
(C20-2), one address family (C11-3), or cannot see non-termination (C16-3); a harness over one statement where the property spans two
(C15-1). Checks that share obligations report a seed under every property that claims the obligation (e.g. C13-1 under C13 and C19);
a property that claims only the safety part of a unit stays undecided, not violated, when only functional clauses fail (C08 on C16-2,
C01-1). Batch 7 (after the stage machine came under contract): obligations spliced INTO the code (closure postconditions) need the same
property tags as contract clauses (C08-4); a driver that replays only genuine traffic cannot replay a decoder bypass (C01-3); where a
refactoring makes a unit uncompilable and the function as a whole is outside Verus (labelled `continue`), only a node-level driver
decides (C14-2, C06-4) - two were written (own_addresses.rs, init_negotiation.rs). Batch 8 (refactorings at node level): a property must
list EVERY obligation its statement depends on, also those first written for a neighbouring property (C13-4: the disconnect sites; C10-3:
the mode table) - otherwise the neighbour's check reports the change and the property's own check is silent; block anchors should be as
short as the statement allows (C10-3); node-level drivers need restart and injection scenarios (C15-4, C02-4) - node_isolation.rs written,
node_peers.rs extended. Batch 9 (refactorings in the remaining units): a renamed helper makes a whole Kani harness FILE uncompilable (C04-3) -
locked obligations that are generated but undecided are now handed to the native search as well, and core_nonce.rs places the private
send counter at every carry boundary and the 56-bit limit; config_merge.rs lacked per-event hooks (C20-4). Batch 10 (told to avoid every earlier site): two changes kept EVERY contract true and broke
the property through the interplay with unverified node code (C01-4: an error class that makes the node discard a handshake; C10-4: a
dropped de-duplication in a function outside Verus' reach) - bounded stand-ins now run in the quick tier too (init_stages, connect_peers);
a mutant can make a proof that takes a minute run for hours (C06-5: float products in CBMC): no check keeps a harness limit above the default. Batch 11: three changes hit clauses that no obligation decided at all (C14-3 the liveness
sentence, C17-5 several beacons per text, C18-4 the key source of a configured node) - each got a bounded stand-in in the quick tier
(mesh_formation.rs, two-beacon texts in beacon_layout.rs, configuration cases in keys_roundtrip.rs); C15-5 showed a statement clause
('with its routes') whose obligation was listed under the neighbouring property only. Batch 12: the node-level drivers had blind spots where the code has
separate paths - plain sessions (C10-5), priority-tagged frames (C13-6), a restarted node (C02-6), a failing tick (C15-6) - all four are
scenarios of the drivers now; C01-5 was caught by the stand-in written one batch earlier.
'''
p = os.path.join(V, 'DESIGN.md')
s = open(p).read()
i = s.index('## 9. Seeded changes')
s = s[:i] + txt
s = re.sub(r'\| seeded changes \(§9\) \| \d+ independently produced property-breaking changes, each confirmed; every one is reported as a VIOLATION by the check of its property \(\d+ of them',
           '| seeded changes (§9) | %d independently produced property-breaking changes, each confirmed; every one is reported as a VIOLATION by the check of its property (%d of them' % (len(rows), len(late)), s)
open(p, 'w').write(s)
print('%d seeds, %d late' % (len(rows), len(late)))
