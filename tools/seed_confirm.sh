#!/bin/bash
# usage: tools/seed_confirm.sh <seed> <test filter> [<demo file name under src/tests, without .rs>]
# Confirms a seeded change in a scratch worktree of /repo (never in /repo itself):
#   1. patch only            -> the existing suite must pass
#   2. patch + demo          -> the demo must fail
#   3. demo without patch    -> the demo must pass
# Prints one summary line per step and writes the log next to the seed (confirm.log).
set -u
SEED=$1; FILTER=$2; DEMOMOD=${3:-}
S=/verif/seeded/$SEED
W=/tmp/sc-$SEED
export CARGO_TARGET_DIR=/var/tmp/vpv-seedtarget CARGO_NET_OFFLINE=true
git -C /repo worktree remove --force $W 2>/dev/null
git -C /repo worktree add --detach $W HEAD >/dev/null 2>&1 || { echo "cannot create worktree"; exit 3; }
cd $W; mkdir -p target   # tests::peers::connect_via_beacons writes target/.vpncloud_test relative to the crate root
LOG=$S/confirm.log; : > $LOG
install_demo() {
  if [ -f $S/demo.patch ]; then git apply $S/demo.patch || { echo "demo.patch does not apply" | tee -a $LOG; return 1; }
  else cp $S/demo.rs src/tests/$DEMOMOD.rs; printf '\nmod %s;\n' $DEMOMOD >> src/tests/mod.rs; fi
}
suite() { cargo test --offline -- "$@" 2>&1 | grep -E "^test .*FAILED|test result|panicked|error(\[|:)" ; }
git apply $S/patch.diff || { echo "patch does not apply"; exit 3; }
echo "## 1. suite with the change" | tee -a $LOG
r1=$(suite); echo "$r1" | tee -a $LOG
for t in $(echo "$r1" | grep -E "^test .*FAILED" | awk '{print $2}'); do
  echo "(re-running $t alone: the beacon file/cmd tests are timing-sensitive under load)" | tee -a $LOG
  suite $t | tee -a $LOG
done
install_demo || exit 3
echo "## 2. demo with the change (filter $FILTER)" | tee -a $LOG
suite $FILTER | tee -a $LOG
git apply -R $S/patch.diff
echo "## 3. demo without the change" | tee -a $LOG
suite $FILTER | tee -a $LOG
cd /; git -C /repo worktree remove --force $W
