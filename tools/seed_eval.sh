#!/bin/bash
# usage: tools/seed_eval.sh <seed dir under /verif/seeded> <property> [more properties]
# applies seeded/<id>/patch.diff to /repo, runs the checks, and restores /repo.
set -u
SEED=$1; shift
cd /verif
if ! git -C /repo diff --quiet; then echo "/repo is dirty; refusing"; exit 3; fi
git -C /repo apply /verif/seeded/$SEED/patch.diff || { echo "patch does not apply"; exit 3; }
for P in "$@"; do
  echo "=== check $P against seed $SEED"
  ./check $P --no-evidence > /tmp/seed_eval_${SEED}_${P}.log 2>&1; rc=$?
  grep -E "^(FAILED-OBLIGATION|VIOLATION|UNDECIDED|KNOWN-FINDING|C[0-9]+ )" /tmp/seed_eval_${SEED}_${P}.log | cut -c1-400
  echo "exit=$rc"
done
git -C /repo checkout -- .
git -C /repo status --short
