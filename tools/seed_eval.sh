#!/bin/bash
# usage: tools/seed_eval.sh <seed dir under /verif/seeded> <property> [more properties]
# Runs the checks against a seeded change. The change is applied in a scratch worktree of /repo's HEAD
# (never in /repo itself) and the checks are pointed at it with --repo; no evidence file is written.
set -u
SEED=$1; shift
W=/tmp/se-$SEED
cd /verif
git -C /repo worktree remove --force $W 2>/dev/null
git -C /repo worktree add --detach $W HEAD >/dev/null 2>&1 || { echo "cannot create worktree"; exit 3; }
git -C $W apply /verif/seeded/$SEED/patch.diff || { echo "patch does not apply"; git -C /repo worktree remove --force $W; exit 3; }
for P in "$@"; do
  echo "=== check $P against seed $SEED"
  ./check $P --repo $W --no-evidence > /tmp/seed_eval_${SEED}_${P}.log 2>&1; rc=$?
  grep -E "^(FAILED-OBLIGATION|VIOLATION|UNDECIDED|KNOWN-FINDING|C[0-9]+ )" /tmp/seed_eval_${SEED}_${P}.log | cut -c1-400
  echo "exit=$rc"
done
git -C /repo worktree remove --force $W
