#!/usr/bin/env python3
"""Generates units/config.rs.in from a field table written from the documentation (vpncloud.adoc / README: every option can be
given in the config file and on the command line; the command line wins; list options accumulate).

Config::merge_file and Config::merge_args are sequences of ~35 independent conditional field updates of a 36-field struct; the
verification condition of the whole function exceeds the solver's resource limit (z3 and cvc5).  The functions are therefore cut
into four contiguous statement ranges each (rule B1; the extractor checks the anchors, the ranges are adjacent by construction:
each starts where the previous one ends), and each range gets a contract over the WHOLE Config value: the fields it owns follow
the documented rule, every other field is unchanged.  The documented rule for the whole function is the composition of the four.
"""
import os
HERE = os.path.dirname(os.path.abspath(__file__))

# (config field path, kind, file expression, args expression, chunk in merge_file, chunk in merge_args)
F = [
 ('device_type', 'value', 'dev_type(file)', 'args.type_', 1, 1),
 ('device_name', 'value', 'dev_name(file)', 'args.device', 1, 1),
 ('device_path', 'option', 'dev_path(file)', 'args.device_path', 1, 1),
 ('fix_rp_filter', 'value', 'dev_rp(file)', 'flag(args.fix_rp_filter, true)', 1, 1),
 ('ip', 'option', 'file.ip', 'args.ip', 1, 1),
 ('advertise_addresses', 'list', 'optlist(file.advertise_addresses)', 'args.advertise_addresses@', 1, 1),
 ('ifup', 'option', 'file.ifup', 'args.ifup', 1, 1),
 ('ifdown', 'option', 'file.ifdown', 'args.ifdown', 1, 1),
 ('listen', 'value', 'file.listen', 'args.listen', 2, 1),
 ('peers', 'list', 'optlist(file.peers)', 'args.peers@', 2, 1),
 ('peer_timeout', 'value', 'file.peer_timeout', 'args.peer_timeout', 2, 2),
 ('keepalive', 'option', 'file.keepalive', 'args.keepalive', 2, 2),
 ('beacon_store', 'option', 'bc_store(file)', 'args.beacon_store', 2, 2),
 ('beacon_load', 'option', 'bc_load(file)', 'args.beacon_load', 2, 2),
 ('beacon_interval', 'value', 'bc_interval(file)', 'args.beacon_interval', 2, 2),
 ('beacon_password', 'option', 'bc_password(file)', 'args.beacon_password', 2, 2),
 ('mode', 'value', 'file.mode', 'args.mode', 3, 2),
 ('switch_timeout', 'value', 'file.switch_timeout', 'args.switch_timeout', 3, 2),
 ('claims', 'list', 'optlist(file.claims)', 'args.claims@', 3, 2),
 ('auto_claim', 'value', 'file.auto_claim', 'flag(args.no_auto_claim, false)', 3, 3),
 ('port_forwarding', 'value', 'file.port_forwarding', 'flag(args.no_port_forwarding, false)', 3, 3),
 ('daemonize', 'value', 'None::<bool>', 'flag(args.daemon, true)', 0, 3),
 ('pid_file', 'option', 'file.pid_file', 'args.pid_file', 3, 3),
 ('stats_file', 'option', 'file.stats_file', 'args.stats_file', 3, 3),
 ('statsd_server', 'option', 'sd_server(file)', 'args.statsd_server', 3, 3),
 ('statsd_prefix', 'option', 'sd_prefix(file)', 'args.statsd_prefix', 3, 3),
 ('user', 'option', 'file.user', 'args.user', 4, 3),
 ('group', 'option', 'file.group', 'args.group', 4, 3),
 ('crypto.password', 'option', 'file.crypto.password', 'args.password', 4, 4),
 ('crypto.public_key', 'option', 'file.crypto.public_key', 'args.public_key', 4, 4),
 ('crypto.private_key', 'option', 'file.crypto.private_key', 'args.private_key', 4, 4),
 ('crypto.trusted_keys', 'list', 'file.crypto.trusted_keys@', 'args.trusted_keys@', 4, 4),
 ('crypto.algorithms', 'algos', 'file.crypto.algorithms', 'args.algorithms', 4, 4),
 # hook / hooks are handled by the R5 pinned statements in chunk 4 (no contract on their value)
 ('hook', 'free', None, None, 4, 4),
 ('hooks', 'free', None, None, 4, 4),
]

# chunk boundaries: each chunk runs from the previous boundary (or the start of the body) until the next anchor (exclusive)
FILE_BOUNDS = ['if let Some(val) = file.listen {', 'if let Some(val) = file.mode {', 'if let Some(val) = file.user {']
ARGS_BOUNDS = ['if let Some(val) = args.peer_timeout {', 'if args.no_auto_claim {', 'if let Some(val) = args.password {']


def clause(field, kind, src, owned):
    f = 'final(self).%s' % field
    o = 'old(self).%s' % field
    if kind == 'free':
        return None if owned else '            %s == %s,' % (f, o)
    if not owned or src is None:
        return '            %s == %s,' % (f, o) if kind not in ('list', 'algos') else '            %s@ == %s@,' % (f, o)
    if kind == 'value':
        return '            %s == (match %s { Some(v) => v, None => %s }),' % (f, src, o)
    if kind == 'option':
        return '            %s == (match %s { Some(v) => Some(v), None => %s }),' % (f, src, o)
    if kind == 'list':
        return '            %s@ == %s@ + %s,' % (f, o, src)
    if kind == 'algos':
        return ('            %s@.len() > 0 ==> %s@.len() == %s@.len(),\n            %s@.len() == 0 ==> %s@ == %s@,' % (src, f, src, src, f, o))
    raise ValueError(kind)


def contract(who, chunk):
    ci = 4 if who == 'file' else 5
    si = 2 if who == 'file' else 3
    lines = ['        ensures',
             '            // fields handled by this range: the value of this source if it gives one, else what was there before; lists accumulate;',
             '            // every other field of the configuration is unchanged']
    for row in F:
        owned = row[ci] == chunk
        c = clause(row[0], row[1], row[si], owned)
        if c:
            lines.append(c)
    return '\n'.join(lines)


def blocks(who):
    fn = 'merge_file' if who == 'file' else 'merge_args'
    param = 'mut file: ConfigFile' if who == 'file' else 'mut args: Args'
    bounds = FILE_BOUNDS if who == 'file' else ARGS_BOUNDS
    out = []
    for k in range(1, 5):
        frm = 'start' if k == 1 else '"%s"' % bounds[k - 2]
        to = 'to end' if k == 4 else 'until "%s"' % bounds[k - 1]
        out.append('//@ block src/config.rs Config::%s from %s %s' % (fn, frm, to))
        out.append('//@   head')
        out.append('fn %s_part%d(&mut self, %s)' % (fn, k, param))
        out.append('//@   contract')
        out.append(contract(who, k))
        if k == 4 and who == 'file':
            out.append('//@   subst "for (k, v) in file.hooks {\\n            self.hooks.insert(k, v);\\n        }" => "pinned_merge_hooks_from_file(&mut self.hooks, file.hooks);" rule R5')
        if k == 4 and who == 'args':
            out.append('//@   replace from "for s in args.hook {" to "self.hook = Some(s);\\n            }\\n        }"')
            out.append('        pinned_merge_hook_args(&mut self.hook, &mut self.hooks, args.hook);')
        out.append('//@ end')
        out.append('')
    return '\n'.join(out)


def into_contract():
    lines = ['        ensures',
             '            // the file form carries every setting the file format can express (all but `daemonize`), so that merging it',
             '            // into defaults reproduces them (with the merge_file contracts: value/option fields are set, lists are appended to empty lists)']
    for row in F:
        field, kind, fsrc = row[0], row[1], row[2]
        if row[4] == 0 or kind == 'free':
            continue
        e = fsrc.replace('(file)', '(file_)').replace('file.', 'file_.')
        if kind == 'value':
            lines.append('            %s == Some(self.%s),' % (e, field))
        elif kind == 'option':
            lines.append('            %s == self.%s,' % (e, field))
        elif kind == 'list':
            lines.append('            %s == self.%s@,' % (e, field))
        elif kind == 'algos':
            lines.append('            %s@ == self.%s@,' % (e, field))
    lines.append('            file_.hook == self.hook, file_.hooks == self.hooks,')
    return '\n'.join(lines)


T = open(os.path.join(HERE, '..', 'units', 'config.rs.tpl')).read()
T = T.replace('/*@CONTRACT_INTO@*/', into_contract())
T = T.replace('/*@BLOCKS_FILE@*/', blocks('file')).replace('/*@BLOCKS_ARGS@*/', blocks('args'))
open(os.path.join(HERE, '..', 'units', 'config.rs.in'), 'w').write('// GENERATED by tools/gen_config_unit.py from units/config.rs.tpl and its field table - do not edit\n' + T)
print('units/config.rs.in written (%d fields, 8 blocks)' % len(F))
