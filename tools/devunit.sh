#!/bin/bash
# developer loop: render a unit against /repo (or $REPO) and run Verus with human-readable diagnostics
U=$1; shift
mkdir -p /var/tmp/vpv/dev
python3 /verif/tools/extract.py /verif/units/$U.rs.in -o /var/tmp/vpv/dev/$U.rs --repo ${REPO:-/repo} || exit 2
R=/verif/.cache/rlib
cd /var/tmp/vpv/dev && verus $U.rs --crate-name $U --triggers-mode silent --multiple-errors 6 --num-threads 8 \
  --extern fnv=$R/libfnv.rlib --extern smallvec=$R/libsmallvec.rlib --extern byteorder=$R/libbyteorder.rlib "$@" 2>&1
