"""Replay files: what failed, the verifier's output, the counterexample (if the back end gives one) and its
re-execution against the real code."""
import json
import os
import re
import subprocess
import sys
import time

HERE = os.path.dirname(os.path.abspath(__file__))
sys.path.insert(0, HERE)
import engine  # noqa: E402


def show(path):
    d = json.load(open(path))
    print(json.dumps(d, indent=1)[:6000])
    return 0


def kani_counterexample(scratch, harness, stubbed, timeout_s=900):
    """Ask Kani for concrete values; if the harness is stub-free, re-execute them natively with `cargo kani playback`."""
    env = engine.env_offline()
    env['CARGO_TARGET_DIR'] = os.path.join(engine.CACHE, 'kani-target')
    res = {'concrete_values': None, 'native_confirmation': False, 'native_output': ''}
    mode = 'print' if stubbed else 'inplace'
    cmd = ['timeout', str(timeout_s), 'cargo', 'kani', '-Z', 'function-contracts', '-Z', 'stubbing', '-Z', 'concrete-playback',
           '--concrete-playback=' + mode, '--harness', harness, '--exact']
    p = subprocess.run(cmd, cwd=scratch, env=env, stdout=subprocess.PIPE, stderr=subprocess.STDOUT, text=True)
    out = p.stdout
    m = re.search(r'(#\[test\]\s*fn (kani_concrete_playback_\w+)\(\)\s*\{.*?\n\})', out, re.S)
    test_name = None
    if m:
        res['concrete_values'] = m.group(1)[:6000]
        test_name = m.group(2)
    else:
        mm = re.search(r'(kani_concrete_playback_\w+)', out)
        if mm:
            test_name = mm.group(1)
    res['kani_cmd'] = ' '.join(cmd)
    if not stubbed and test_name:
        if res['concrete_values'] is None:
            # inplace mode wrote the test into the harness file copy; pick it up
            for root, _, files in os.walk(os.path.dirname(scratch)):
                for f in files:
                    if f.endswith('.rs') and root == os.path.dirname(scratch):
                        t = open(os.path.join(root, f)).read()
                        m2 = re.search(r'(#\[test\]\s*fn ' + test_name + r'\(\)\s*\{.*?\n\})', t, re.S)
                        if m2:
                            res['concrete_values'] = m2.group(1)[:6000]
        cmd2 = ['timeout', str(timeout_s), 'cargo', 'kani', 'playback', '-Z', 'concrete-playback', '--', test_name]
        p2 = subprocess.run(cmd2, cwd=scratch, env=env, stdout=subprocess.PIPE, stderr=subprocess.STDOUT, text=True)
        res['native_cmd'] = ' '.join(cmd2)
        res['native_output'] = p2.stdout[-3000:]
        # the native run must fail (panic / failed assertion) for the counterexample to be confirmed
        if re.search(r'test result: FAILED|panicked at', p2.stdout):
            res['native_confirmation'] = True
    return res


def build(pid, o, P, repo, work, verus_results, kani_out):
    rp = {'property': pid, 'obligation': o['id'], 'backend': o['backend'], 'clause': o.get('clause', ''),
          'verifier_output': o.get('detail'), 'failing_input_found': False, 'time': time.strftime('%Y-%m-%dT%H:%M:%S')}
    try:
        if o['backend'].startswith('kani'):
            scratch = os.path.join(work, 'repo')
            stubbed = bool(o.get('stubs'))
            ce = kani_counterexample(scratch, o['harness'], stubbed)
            rp['counterexample'] = ce
            if ce.get('native_confirmation'):
                rp['failing_input_found'] = True
                rp['how'] = 'Kani counterexample re-executed natively against the scratch copy of the real crate (cargo kani playback): the harness assertion fails'
            elif ce.get('concrete_values'):
                rp['how'] = 'Kani produced concrete values (below); the harness replaces ring primitives by stubs, so it cannot be re-executed natively'
        drv = P.get('native_search', {}).get(o['id'])
        if drv and not rp['failing_input_found']:
            import native
            r = native.run_driver(drv, repo, work, o)
            rp['native_search'] = r
            if r.get('found'):
                rp['failing_input_found'] = True
                rp['how'] = 'native search driver %s found a failing input on the real code' % drv
        if o['backend'].startswith('verus'):
            unit = o['id'].split('::')[0]
            vr = verus_results.get(unit)
            if vr:
                rp['generated_file'] = vr.get('generated')
                rp['verus_cmd'] = vr.get('cmd')
    except Exception as e:  # replay is best effort; the violation is reported regardless
        rp['replay_error'] = repr(e)
    return rp
