"""Replay files: what failed, the verifier's output, the counterexample (if the back end gives one) and its
re-execution against the real code."""
import json
import os
import re
import subprocess
import sys
import time

HERE = os.path.dirname(os.path.abspath(__file__))
sys.path.insert(0, HERE)
import engine  # noqa: E402


def show(path):
    d = json.load(open(path))
    print(json.dumps(d, indent=1)[:6000])
    return 0


def kani_counterexample(scratch, harness, stubbed, timeout_s=480):
    """Ask Kani for concrete values; if the harness is stub-free, re-execute them natively with `cargo kani playback`."""
    env = engine.env_offline()
    env['CARGO_TARGET_DIR'] = os.path.join(engine.CACHE, 'kani-target')
    res = {'concrete_values': None, 'native_confirmation': False, 'native_output': ''}
    mode = 'print' if stubbed else 'inplace'
    cmd = ['timeout', str(timeout_s), 'cargo', 'kani', '-Z', 'function-contracts', '-Z', 'stubbing', '-Z', 'concrete-playback',
           '--concrete-playback=' + mode, '--harness', harness, '--exact']
    p = subprocess.run(cmd, cwd=scratch, env=env, stdout=subprocess.PIPE, stderr=subprocess.STDOUT, text=True)
    out = p.stdout
    tests = re.findall(r'(#\[test\]\s*fn (kani_concrete_playback_\w+)\(\)\s*\{.*?\n\})', out, re.S)
    short = harness.split('::')[-1]
    test_name = 'kani_concrete_playback_' + short      # prefix filter: runs every generated test (failed checks and satisfied covers)
    if tests:
        res['concrete_values'] = '\n'.join(t[0] for t in tests)[:8000]
    res['kani_cmd'] = ' '.join(cmd)
    if not stubbed and test_name:
        if res['concrete_values'] is None:
            # inplace mode wrote the tests into the harness file copy; pick them up
            d = os.path.dirname(scratch)
            for f in os.listdir(d):
                if f.endswith('.rs'):
                    t = open(os.path.join(d, f)).read()
                    ts = re.findall(r'(#\[test\]\s*fn ' + test_name + r'\w*\(\)\s*\{.*?\n\})', t, re.S)
                    if ts:
                        res['concrete_values'] = '\n'.join(ts)[:8000]
        # Kani 0.68 wraps a long check description over several lines, which breaks out of the `///` comment it writes: re-comment
        d = os.path.dirname(scratch)
        for f in os.listdir(d):
            if f.endswith('.rs'):
                lines = open(os.path.join(d, f)).read().split('\n')
                fixed, in_doc = [], False
                for l in lines:
                    if l.startswith('/// Check for `'):
                        in_doc = l.count('"') % 2 == 1
                    elif in_doc:
                        if l.count('"') % 2 == 1:
                            in_doc = False
                        l = '/// ' + l
                    fixed.append(l)
                if fixed != lines:
                    open(os.path.join(d, f), 'w').write('\n'.join(fixed))
        cmd2 = ['timeout', str(timeout_s), 'cargo', 'kani', 'playback', '-Z', 'concrete-playback', '--', test_name]
        p2 = subprocess.run(cmd2, cwd=scratch, env=env, stdout=subprocess.PIPE, stderr=subprocess.STDOUT, text=True)
        res['native_cmd'] = ' '.join(cmd2)
        res['native_output'] = p2.stdout[-3000:]
        # the native run must fail (panic / failed assertion) for the counterexample to be confirmed
        if re.search(r'test result: FAILED|panicked at', p2.stdout):
            res['native_confirmation'] = True
    return res


def build(pid, o, P, repo, work, verus_results, kani_out):
    rp = {'property': pid, 'obligation': o['id'], 'backend': o['backend'], 'clause': o.get('clause', ''),
          'verifier_output': o.get('detail'), 'failing_input_found': False, 'time': time.strftime('%Y-%m-%dT%H:%M:%S')}
    try:
        if o['backend'].startswith('kani'):
            scratch = os.path.join(work, 'repo')
            # stubs of formatting / logging only replace text production: the native run uses the real functions
            stubbed = any(not re.search(r'fmt :: format|log :: max_level', st) for st in (o.get('stubs') or []))
            ce = kani_counterexample(scratch, o['harness'], stubbed)
            rp['counterexample'] = ce
            if ce.get('native_confirmation'):
                rp['failing_input_found'] = True
                rp['how'] = 'Kani counterexample re-executed natively against the scratch copy of the real crate (cargo kani playback): the harness assertion fails'
            elif ce.get('concrete_values'):
                rp['how'] = 'Kani produced concrete values (below); the harness replaces ring primitives by stubs, so it cannot be re-executed natively'
        # every driver registered for this obligation (exact id first, then patterns) is tried until one finds a failing input
        drvs = []
        for k_, v_ in P.get('native_search', {}).items():
            if k_ == o['id'] or re.fullmatch(k_, o['id']):
                for d_ in (v_ if isinstance(v_, list) else [v_]):
                    if d_ not in drvs:
                        drvs.append(d_)
        if drvs and not rp['failing_input_found']:
            import native
            rp['native_search'] = []
            for drv in drvs:
                r = native.run_driver(drv, repo, work, o)
                rp['native_search'].append(r)
                if r.get('found'):
                    rp['failing_input_found'] = True
                    rp['how'] = 'native search driver %s found a failing input on the real code' % drv
                    break
        if o['backend'].startswith('verus'):
            unit = o['id'].split('::')[0]
            vr = verus_results.get(unit)
            if vr:
                rp['generated_file'] = vr.get('generated')
                rp['verus_cmd'] = vr.get('cmd')
    except Exception as e:  # replay is best effort; the violation is reported regardless
        rp['replay_error'] = repr(e)
    return rp
