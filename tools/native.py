"""Native replay/search drivers: small #[cfg(test)] modules attached to a scratch copy of the real crate and run with the
repository's own toolchain.  A driver turns the shape of a verifier counterexample into real inputs (real ring keys, really
sealed datagrams, ...) and prints `FAILING-INPUT: <description>` when the real code violates the property on them."""
import os
import re
import shutil
import subprocess
import sys

HERE = os.path.dirname(os.path.abspath(__file__))
VERIF = os.path.dirname(HERE)
sys.path.insert(0, HERE)
import engine  # noqa: E402


def run_driver(drv, repo, work, o=None, timeout_s=600):
    """drv: dict(file=<path under /verif/native>, attach=<crate-relative source file>, test=<test name filter>)"""
    dst = os.path.join(work, 'native-repo')
    if os.path.exists(dst):
        shutil.rmtree(dst)
    subprocess.run(['rsync', '-a', '--exclude', 'target', '--exclude', '.git', repo.rstrip('/') + '/', dst + '/'], check=True)
    src = os.path.join(work, os.path.basename(drv['file']))
    shutil.copy(os.path.join(VERIF, drv['file']), src)
    mod = '__verif_native_' + re.sub(r'\W', '_', os.path.basename(src).split('.')[0])
    with open(os.path.join(dst, drv['attach']), 'a') as f:
        f.write('\n#[cfg(test)]\n#[path = "%s"]\nmod %s;\n' % (src, mod))
    env = engine.env_offline()
    env['CARGO_TARGET_DIR'] = os.path.join(engine.CACHE, 'native-target')
    env['RUST_BACKTRACE'] = '0'
    if o is not None:
        env['VERIF_OBLIGATION'] = o.get('id', '')
    for k_, v_ in (drv.get('env') or {}).items():
        env[k_] = v_
    cmd = ['timeout', str(timeout_s), 'cargo', 'test', '--offline', mod + '::' + drv.get('test', ''), '--', '--nocapture', '--test-threads', '1']
    p = subprocess.run(cmd, cwd=dst, env=env, stdout=subprocess.PIPE, stderr=subprocess.STDOUT, text=True)
    out = p.stdout
    found = re.findall(r'FAILING-INPUT: (.*)', out)
    ran = re.search(r'running (\d+) test', out)
    shutil.rmtree(dst, ignore_errors=True)
    return {'cmd': ' '.join(cmd), 'found': bool(found), 'failing_inputs': found[:10], 'ran': bool(ran and int(ran.group(1)) > 0),
            'exit': p.returncode, 'output_tail': out[-2500:]}
