"""Property -> contracts map (which units / harnesses decide which property). See DESIGN.md §3/§4."""

GLOBAL_TRUSTED = [
    'tool chain: rustc, Verus 0.2026.09.13 + z3, Kani 0.68 + CBMC 6.11 (soundness of the verifiers)',
    'extraction rules R1-R9/B1 of tools/extract.py (the applied ones are listed under extraction_rules_applied)',
    'machine integers are machine integers: Verus checks overflow on exec code, Kani runs with overflow checks; int/nat only in specs',
]

CORE = 'crypto::core::__verif_core::'


def K(prefix, name, clause, kind='P', tier='quick', fns=(), bound=None):
    return {'name': prefix + name, 'clause': clause, 'kind': kind, 'tier': tier, 'fns': list(fns), 'bound': bound}


PROPS = {}
WINDOW_DRV = {'file': 'native/core_window.rs', 'attach': 'src/crypto/core.rs', 'test': 'replay_window_matches_the_property'}
INIT_DRV = {'file': 'native/init_decoder.rs', 'attach': 'src/crypto/init.rs', 'test': 'handshake_decoder_is_total_and_accepts_only_signed_messages'}
STAGES_DRV = {'file': 'native/init_stages.rs', 'attach': 'src/crypto/init.rs', 'test': 'handshake_stage_machine_survives_replays_and_never_completes_twice_or_with_itself'}
STAGES_FNS = ['InitState::(handle_init|every_second|send_ping|repeat_last_message|stage|take_core|fresh_block)', 'InitMsg::(stage|salted_node_id_hash)', 'MsgBuffer::.*', 'canary_.*']
STAGES_TRUSTED = [
    'unit initstage, environment (contracts ASSUMED): ring ECDH key generation / agreement / key derivation (create_ecdh_keypair, derive_master_key: their unwrap()s concern locally generated keys and the SIGNED public key of a trusted peer), CryptoCore::new, InitState::decrypt (AEAD open + Payload::read_from: result is the uninterpreted function opened(core, sealed)), InitState::select_algorithm (result is the uninterpreted function selection(own, peer); its body is under contract as a Kani block under C06), InitState::check_salted_node_id_hash (its contract is PROVED in unit codec), InitMsg::read_from (PROVED total and signature-gated in unit codec; here: a function of the datagram and the trusted keys)',
    'unit initstage: InitState::send_message (encode + sign + store the outgoing message) is an environment function: its caller-dependent panic sites are its preconditions (assert!(out.is_empty()), key present for ping/pong, stage in 1..=3) and are PROVED at every call site; `expect("Buffer too small")` (the own node information does not fit) is ASSUMED not to fire and the message to be at most 65535-1024 bytes; buffers handed to a handshake object have space_before <= 1024 (cloud.rs: SPACE_BEFORE = 100 at every MsgBuffer::new)',
    'unit initstage R5 pinned statements: comparisons of two [u8; 20] salted hashes (==, <, >, <=, >= in either order) through arr20_eq / arr20_gt (lexicographic order as uninterpreted function lex_gt), `CryptoCore::new(` -> core_new(; R1: the statement `self.selected_algorithm = ...` (field used by tests only) is dropped; R4: InitState without key_pair and selected_algorithm; R8: the `.map_err(|_| Error::CryptoInitFatal(..))` closure of the pong arm gets `ensures o is CryptoInitFatal` (a proof obligation on the closure body)',
    'the representation invariant of handshake objects is carried as far as the per-peer object: a fresh object satisfies it (block of InitState::new), InitState::{handle_init, every_second, take_core} preserve it except on a FATAL error in the pong arm, PeerCrypto::{handle_message, handle_init_message, every_second} (unit buffer, through the shared clause files units/iface/handle_init.*, init_every_second.contract, init_take_core.ensures) preserve it for their handshake object with the same exception, and a finished handshake object (the only kind inside an established peer) is never spoiled. NOT proved at node level: that GenericCloud discards a pending object after a fatal error (handle_socket_event: `self.pending_inits.remove(&src)`; sources of the real UdpSocket / proxy are always V6 so the removal key equals the mapped lookup key) - reading',
]
NEG_DRV = {'file': 'native/init_negotiation.rs', 'attach': 'src/crypto/init.rs', 'test': 'negotiated_outcome_matches_the_property'}
ISO_DRV = {'file': 'native/node_isolation.rs', 'attach': 'src/tests/common.rs', 'test': 'frames_go_exactly_to_the_selected_peers_once_and_are_never_relayed'}
NONCE_DRV = {'file': 'native/core_nonce.rs', 'attach': 'src/crypto/core.rs', 'test': 'counters_never_wrap_onto_used_nonces'}
BASE62_DRV = {'file': 'native/base62_long.rs', 'attach': 'src/util.rs', 'test': 'text_codec_round_trips_long_strings'}
TABLE_MODEL = {'file': 'native/table_model.rs', 'attach': 'src/table.rs', 'test': 'table_matches_reference_model'}

PROPS['C03'] = {
    'level': 'proof',
    # who drives the tick at peer level: PeerCrypto::every_second ticks the peer's core exactly once on EVERY return path
    'verus': [{'unit': 'buffer', 'fns': ['PeerCrypto::every_second', 'PeerCrypto::get_core', 'PeerCrypto::encrypt_message', 'CryptoCore::encrypt']}],
    'native_search': {r'kani::core::.*': WINDOW_DRV},
    'kani': {
        'files': {'src/crypto/core.rs': ['kani/core.rs']},
        'harnesses': [
            K(CORE, 'nonce_increment_is_plus_one', 'Nonce::increment == +1 mod 2^96 for all 2^96 values', fns=['crypto::core::Nonce::increment']),
            K(CORE, 'nonce_order_is_numeric', 'derived Ord/Eq on Nonce == numeric order of the big-endian value', fns=['crypto::core::Nonce (derived PartialOrd/Ord/PartialEq)']),
            K(CORE, 'decrypt_with_key_contract', 'Ok <=> nonce >= min && AEAD ok; Ok: seen = max(seen,nonce); nothing else changes; Err: nothing changes', fns=['crypto::core::CryptoCore::decrypt_with_key']),
            K(CORE, 'update_min_nonce_contract', "tick: min' = next_min, next_min' = seen+1, seen/send unchanged", fns=['crypto::core::CryptoKey::update_min_nonce']),
            K(CORE, 'window_inv_initial', 'fresh slot satisfies the window invariant J'),
            K(CORE, 'window_inv_step_deliver', 'from any J-state: accepted => counter higher than everything accepted before the tick preceding the most recent tick; in-window => accepted in any order; newer than all seen => accepted; J preserved'),
            K(CORE, 'window_inv_step_tick', 'from any J-state a tick preserves J with the ghost flags shifted'),
            K(CORE, 'window_two_tick_bound', 'once a >= n was accepted, n is rejected after two further ticks whatever is delivered in between'),
            K(CORE, 'every_second_ticks_all_slots', 'CryptoCore::every_second ticks each of the 4 key slots and nothing else', fns=['crypto::core::CryptoCore::every_second']),
            K(CORE, 'rotate_key_contract', 'rotate_key: slot id%4 restarts at (0,0,0); other slots untouched (per-slot windows)', fns=['crypto::core::CryptoCore::rotate_key', 'crypto::core::CryptoKey::new', 'crypto::core::Nonce::random']),
        ],
    },
    'trusted': [
        'ring::aead::LessSafeKey::open_in_place replaced by a stub returning a nondeterministic verdict (AEAD treated as an oracle); LessSafeKey values are opaque (transmuted zero bytes, never read)',
        'ring::rand::SystemRandom::fill replaced by a stub writing arbitrary bytes',
        'every nonce reaching decrypt_with_key has bytes 1..=4 zero (established by the header block of CryptoCore::decrypt, proved under C02/C04 unit coreblocks)',
        'unit buffer: InitState::every_second, RotationState::cycle, CryptoCore::{every_second, rotate_key, algorithm} are opaque environment functions (frames only); ghost tick counter ticks(core) advanced by CryptoCore::every_second, whose effect on the four slots is the Kani obligation every_second_ticks_all_slots',
    ],
    'not_decided': [
        'that GenericCloud::crypto_housekeep calls PeerCrypto::every_second once per second for every peer (loop over the peers HashMap, not typed by Verus); from PeerCrypto::every_second down to the four key slots the tick is under contract; "seconds" are ticks here',
    ],
}

PROPS['C11'] = {
    'level': 'proof',
    'verus': [{'unit': 'table', 'fns': ['ClaimTable::lookup', 'ClaimTable::housekeep', 'ClaimTable::cache', 'ClaimTable::new', 'ClaimTable::set_claims', 'ClaimTable::remove_claims', 'lemma_.*']}],
    'native_search': {r'table::.*': TABLE_MODEL},
    'kani': {
        'files': {'src/types.rs': ['kani/types.rs'], 'src/cloud.rs': ['kani/cloudblocks.rs.in']},
        'harnesses': [
            K('types::__verif_types::', 'range_matches_is_prefix_match', 'Range::matches == same length and first prefix_len bits agree (false if prefix_len > 8*len), bit-by-bit reference, every base/address/length 0..=16/prefix 0..=255', fns=['types::Range::matches']),
            K('types::__verif_types::', 'address_eq_is_prefix_equality', 'Address::eq == same length and same first len bytes', fns=['types::Address::eq']),
            K('cloud::__verif_cloudblocks::', 'mode_table_matches_documentation', 'unknown destinations: broadcast flag false exactly for router (and normal/tun), true for switch and hub', fns=['cloud::GenericCloud::new (block: mode table)']),
            K('cloud::__verif_cloudblocks::', 'table_gets_switch_and_peer_timeouts', 'cached decisions live for the switch timeout, claims for the peer timeout', fns=['cloud::GenericCloud::new (block: ClaimTable::new arguments)']),
        ],
    },
    'trusted': [
        'vstd HashMap model with builds_valid_hashers::<BuildHasherDefault<FnvHasher>>() and obeys_key_model::<Address>() as axioms',
        'clock values lie in [0, 2^48)',
    ],
    'not_decided': [],
}

PAY = 'payload::__verif_payload::'
PROPS['C19'] = {
    'level': 'proof',
    'kani': {
        'files': {'src/payload.rs': ['kani/payload.rs']},
        'harnesses': [
            K(PAY, 'frame_parse_len_le_1600', 'Frame::parse == reference dissector written from 802.3/802.1Q for every byte string of length <= 1600 (every ethertype, every TCI, nested tags); Err exactly when truncated; never panics', fns=['payload::Frame::parse']),
            K(PAY, 'packet_parse_len_le_64', 'Packet::parse == reference written from RFC 791 / RFC 8200 for every byte string of length <= 64', kind='P', fns=['payload::Packet::parse', 'types::Address::read_from_fixed']),
            K(PAY, 'frame_parse_len_le_65535', 'same, every length the receive buffer can hold', tier='thorough', fns=['payload::Frame::parse']),
            K(PAY, 'packet_parse_len_le_65535', 'same, every length the receive buffer can hold', tier='thorough', fns=['payload::Packet::parse']),
        ],
        'harness_timeout': '60m',
    },
    'trusted': [],
    'not_decided': [],
}

TIM = 'cloud::__verif_timing::'
NODE_PEERS_DRV = {'file': 'native/node_peers.rs', 'attach': 'src/tests/common.rs', 'test': 'peers_time_out_when_silent_and_never_when_healthy'}
PEERS_TRUSTED = [
    'unit peers: the claim table is an opaque type observed through announces(peer, r) / routes_to(peer) (defined in unit table); the contracts it assumes for ClaimTable::set_claims / remove_claims are the clause files units/iface/table_*.ensures, and unit table proves exactly these clauses from the contracts of the real functions (lemma_set_claims_iface, lemma_remove_claims_iface) - the only unchecked step is that the lemma hypotheses are the proved postconditions (same unit, read side by side)',
    'unit peers: GenericCloud::connect_to_peers / connect_sock are environment functions assumed not to touch the peer map or the table; the clock does not advance within one operation',
    'unit peers R5 pinned statements: `self.peers.get_mut(&addr)`, `self.peers.remove(&addr)` (exact map contracts for SocketAddr keys), `peer.addrs.contains(addr)`, and the loop over the peer map in housekeep that collects expired addresses (`for (&addr, data) in &self.peers { if data.timeout < now { del.push(addr); } }`: ref patterns / HashMap iteration are not typed by this Verus); R4: GenericCloud pruned to config, peers, table',
]
PROPS['C15'] = {
    'level': 'proof',
    # what refreshes a peer and with which timeout; when it is removed
    'verus': [{'unit': 'peers', 'fns': ['GenericCloud::update_peer_info', 'GenericCloud::add_new_peer', 'GenericCloud::housekeep_expiry_block', 'lemma_take_contains', 'canary_.*']},
              # "... is removed, WITH ITS ROUTES": what the expiry statements call on the table, and the lemma that carries it to unit peers
              {'unit': 'table', 'fns': ['ClaimTable::remove_claims', 'lemma_remove_claims_iface', 'lemma_range_eq_trans']}],
    'native_search': {r'peers::GenericCloud.*': NODE_PEERS_DRV, r'kani::timing::housekeep_interval.*': NODE_PEERS_DRV, r'table::.*': [TABLE_MODEL, NODE_PEERS_DRV]},
    'kani': {
        'files': {'src/cloud.rs': ['kani/timing.rs.in']},
        'harnesses': [
            K(TIM, 'housekeep_interval_all_pairs', 'announcement interval block of GenericCloud::housekeep: no arithmetic fault; interval <= 1 or < smallest advertised timeout; <= own keep-alive; all 2^32 pairs', fns=['cloud::GenericCloud::housekeep (block: let interval = ...)']),
            K(TIM, 'housekeep_interval_from_peer_set_le_4', 'the two statements deriving the interval from the peer set (min over advertised timeouts, then the interval expression): interval <= 1 or < EVERY advertised timeout; <= own keep-alive; every value, up to 4 peers', kind='B', bound='at most 4 peers in the peer set (values unrestricted)', fns=['cloud::GenericCloud::housekeep (block: let min_peer_timeout = ...; let interval = ...;)']),
            K(TIM, 'get_keepalive_all_inputs', 'Config::get_keepalive body: no fault; explicit keep-alive wins; default is 1 or < own peer timeout; all inputs', fns=['config::Config::get_keepalive (body as block)']),
            K(TIM, 'backoff_invariant_step', 'back-off block of reconnect_to_peers: 1 <= timeout <= 3600 and tries <= 10 preserved, no overflow, next attempt at most 3600 s ahead', fns=['cloud::GenericCloud::reconnect_to_peers (block: back-off)']),
            K(TIM, 'configured_peer_is_retained', 'retain predicate of reconnect_to_peers keeps every entry without final_timeout (configured peers are retried indefinitely)', fns=['cloud::GenericCloud::reconnect_to_peers (block: retain predicate)']),
        ],
    },
    'trusted': ['block contracts: only the named statement ranges are under contract; the rest of housekeep / reconnect_to_peers is not'] + PEERS_TRUSTED,
    'not_decided': [
        'GenericCloud::housekeep beyond the expiry statements and the interval statements (crypto_housekeep, statistics, beacons, port forwarding)',
        'mesh-level "no healthy peer is ever timed out" (needs delivery assumptions)',
    ],
}

CB = 'crypto::core::__verif_coreblocks::'
H_ENC = K(CB, 'encrypt_block_contract', 'seal block of CryptoCore::encrypt: counter incremented before use and stored back; AEAD called once with the current key and exactly that counter; header = key id || counter bytes 5..12; other slots untouched', fns=['crypto::core::CryptoCore::encrypt (block: key/nonce/header/seal)'])
H_DEC = K(CB, 'decrypt_block_contract', 'open block of CryptoCore::decrypt: key id outside 0..=3 rejected; slot = header byte 0; AEAD nonce = [opposite half,0,0,0,0,header 1..8]; only that slot may change', fns=['crypto::core::CryptoCore::decrypt (block: header read/nonce/decrypt_with_key)'])
H_AGR = K(CB, 'seal_then_open_nonce_agreement', 'receiver reconstructs the sealing nonce iff it is in the other half and the counter fits 56 bits; reflected or overflowed datagrams meet a different nonce (cannot open)')
PROPS['C02'] = {
    'level': 'proof',
    # the per-peer envelope decisions: nothing is interpreted unless plain mode was negotiated or a ready core opened it; nothing leaves
    # unsealed unless plain mode was negotiated (unit buffer, the same verbatim functions as for C08)
    'verus': [{'unit': 'buffer', 'fns': ['PeerCrypto::(decrypt_message|encrypt_message|handle_message|handle_init_message|send_message|get_core|get_init)', 'CryptoCore::(decrypt|encrypt)', 'is_init_message']},
              # key material of the slots a receiver is willing to open: the negotiated key or fresh random bytes, never constants
              {'unit': 'corekeys'}],
    'kani': {
        'files': {'src/crypto/core.rs': ['kani/coreblocks.rs.in', 'kani/core.rs']},
        'harnesses': [H_ENC, H_DEC, H_AGR,
            K(CORE, 'decrypt_with_key_contract', 'Ok <=> nonce >= min && AEAD ok (a datagram the AEAD rejects is never accepted and changes nothing)', fns=['crypto::core::CryptoCore::decrypt_with_key']),
        ],
    },
    'native_search': {'kani::coreblocks::decrypt_block_contract': {'file': 'native/core_keyid.rs', 'attach': 'src/crypto/core.rs', 'test': 'altered_key_id_is_rejected'},
                      r'kani::core::decrypt_with_key_contract': WINDOW_DRV,
                      r'buffer::PeerCrypto::.*': ISO_DRV},
    'trusted': [
        'AEAD axioms (ring): open succeeds only for the key, nonce and ciphertext||tag that seal produced; ring entry points are stubbed by oracles that record key/nonce',
        'unit corekeys: ring objects opaque; secret(bytes) = "came out of SystemRandom::fill" (uninterpreted); R5 pinned statements `rand.fill(&mut data).expect(..)` and `LessSafeKey::new(UnboundKey::new(alg, &data).unwrap())`',
        'block contracts: the statements of encrypt/decrypt between the buffer split and the buffer re-adjustment are cut out verbatim; the surrounding MsgBuffer geometry is under contract in the Verus unit `buffer` (C08)',
    ],
    'not_decided': [
        'confidentiality (cleartext never on the wire) is a property of the cipher',
        'node level: that every emitted message goes through PeerCrypto::send_message (frame conditions are under C10)',
        '"plain only if both enabled it" is C06',
    ],
}

IB = 'crypto::init::__verif_initblocks::'
PROPS['C06'] = {
    'level': 'proof',
    # "the lists reach the negotiation unaltered": the cipher list of a decoded ping / pong is the decoding of an algorithms part of the
    # signed message (every entry with code 1..=3 in order, with its speed; plain iff an entry has code 0)
    'verus': [{'unit': 'codec', 'rlimit': 100, 'fns': ['InitMsg::read_from', 'lemma_cur_adv', 'canary_.*']},
              # what handle_init does with the selection: the core is built from exactly the selected algorithm (none: plain), a first
              # ping / expected pong without common cipher is a fatal error without reply ("fails cleanly")
              {'unit': 'initstage', 'fns': ['InitState::handle_init', 'canary_.*']},
              # WRITE side of the cipher list: the algorithms statements of InitMsg::write_to (block) write exactly enc_algos_part, and
              # the format specification InitMsg::read_from is proved against reads back list, order, speeds and plain flag (theorem)
              {'unit': 'initenc'}],
    'native_search': {r'codec::InitMsg.*': INIT_DRV, r'initstage::.*': [NEG_DRV, STAGES_DRV], r'initenc::.*': [INIT_DRV, NEG_DRV]},
    'kani': {
        'files': {'src/crypto/init.rs': ['kani/initblocks.rs.in']},
        'harnesses': [
            K(IB, 'negotiation_len_%d_%d' % (x, y), 'select_algorithm body, both directions, own list of %d and peer list of %d distinct ciphers in any order, every finite non-negative f32 speed (ties, zero, huge), both plain flags: same outcome at both ends; plain iff both flags; chosen cipher is common and its min-speed is maximal; error iff no common cipher and not both plain' % (x, y), fns=['crypto::init::InitState::select_algorithm (whole body as block)'])
            for x in range(4) for y in range(4)
        ],
        'jobs': 16,
    },
    'trusted': STAGES_TRUSTED + [
        'unit initenc: std::io::Write for in-memory writers (written / room), byteorder writes through wrappers (T1), f32 <-> 4 big-endian bytes as uninterpreted functions with the axiom f32_be(f32_bytes(v)) == v (to_bits / from_bits), identity of the ring algorithm statics through algo_code; the list holds only the three known ciphers (precondition: the `unreachable!()` of the loop)',
        'the advertised lists reach select_algorithm unaltered (Ed25519 signature over the handshake message; C01 is not decided)',
        'a peer may send duplicate or more than three entries on the wire; lists with distinct ciphers only are covered',
        'NaN speeds are excluded (the property excludes them)',
    ],
    'not_decided': ['"altering the lists in transit makes the handshake fail": InitMsg::read_from accepts only correctly signed messages (C01, unit codec) and hands on exactly the decoded list; of InitMsg::write_to only the statements that write the algorithms part are under contract (unit initenc, with the list round-trip theorem); the native driver checks the write/read round trip of every subset in every order',
                    'Crypto::parse_algorithms (String handling: to_uppercase, Vec<String>) is not under contract'],
}

PROPS['C04'] = {
    'level': 'proof',
    'kani': {
        'files': {'src/crypto/core.rs': ['kani/coreblocks.rs.in', 'kani/core.rs'], 'src/crypto/init.rs': ['kani/initblocks.rs.in']},
        'harnesses': [
            K(CORE, 'nonce_increment_is_plus_one', 'Nonce::increment == +1 mod 2^96 for all 2^96 values (every byte-carry boundary)', fns=['crypto::core::Nonce::increment']),
            K(CORE, 'nonce_order_is_numeric', 'derived Ord on Nonce is the numeric order', fns=['crypto::core::Nonce (derived Ord)']),
            H_ENC, H_AGR,
            K(CORE, 'rotate_key_contract', 'a rotated-in key slot starts a fresh sequence in the core\'s own half (bytes 1..=5 zero, 48 arbitrary low bits); other slots keep their counters', fns=['crypto::core::CryptoCore::rotate_key', 'crypto::core::CryptoKey::new', 'crypto::core::Nonce::random']),
            K(IB, 'nonce_halves_are_opposite', 'for all pairs of 160-bit salted hashes a != b both role expressions give the two ends opposite halves; a == b is stopped by the "Connected to self" test', fns=['crypto::init::InitState::handle_init (blocks: CryptoCore::new half argument x2, self test)']),
        ],
    },
    'native_search': {r'kani::(core|coreblocks)::.*': NONCE_DRV},
    'trusted': [
        'unpredictability of the 48 random start bits (ring SystemRandom, stubbed by arbitrary bytes)',
        '"a rotated-in key is a fresh key" (ECDH) - key material is opaque here',
        'AEAD axiom for the overflow clause: a datagram opens only under its sealing nonce',
        'a sender does not reach 2^88 seals on one key (carry into the half marker byte); stated as assumption in seal_then_open_nonce_agreement',
        'ghost induction: encrypt_block_contract (nonce used = stored counter = old + 1) implies by induction over the seals of one CryptoKey object that no nonce repeats before 2^96 seals',
    ],
    'not_decided': ['whole-lifetime schedules of both ends (simultaneous open, renegotiation): the contracts are per key object and per handshake step'],
}

TY = 'types::__verif_types::'
CODEC_TRUSTED = [
    'dependency contracts (unit codec prelude): std::io::Read / Take / Write for IN-MEMORY readers and writers (Cursor over a byte slice and Take of one, the only instantiations in the crate): a reader is the byte sequence still to be read, read_exact / byteorder reads consume a prefix and fail iff it is too short; a writer appends and fails iff no room is left',
    'Cursor<&mut [u8]> (encoder side): content and position as observers; byteorder writes and Seek::seek(SeekFrom::Start(p)) through wrappers with the cursor-exact contract (a write replaces the bytes at the position, a seek moves the position only)',
    'T1: byteorder calls (r.read_u8(), read_u16::<NetworkEndian>(), write_u8 ...) are written as calls of wrapper fns whose bodies are exactly those calls (byteorder::ByteOrder is sealed, Verus cannot attach a specification); readers / writers taken by value (`mut r: R` with callers passing `&mut r`) are taken as `&mut R` (std forwards Read/Write for &mut R)',
    'std::net: SocketAddr is the transparent enum; SocketAddrV4/V6 are opaque records observed through ip/port accessors with constructor axioms (IPv6 flow info and scope id are not transmitted, the decoder sets them to 0)',
    'R6: SmallVec lists (AddrList, PeerList, RangeList, key bytes) are modelled by Vec (push / pop / with_capacity / iteration only); ring UnparsedPublicKey is an opaque byte container',
]
CODEC_DRV = {'file': 'native/codec_model.rs', 'attach': 'src/messages.rs', 'test': 'node_info_codec_matches_the_format'}
PROPS['C16'] = {
    'level': 'proof',
    'native_search': {r'codec::(NodeInfo|Range|Address|theorem_(peer|claims)).*': CODEC_DRV, r'codec::InitMsg.*': INIT_DRV, r'initenc::.*': INIT_DRV},
    'level_text': 'Proof (Verus, real code, unbounded lengths, termination included): NodeInfo::{decode, decode_internal, decode_peer_list_part, decode_claims_part, read_addr_list, read_addr_list_inner}, Range::read_from, Address::{read_from, read_from_fixed} and RotationMessage::read_from against a format specification written from the wire format (value or error for EVERY byte sequence; unknown parts are skipped; only the length of the three fixed-size known parts is left unspecified when it disagrees with their content); the encoders NodeInfo::{encode_peer_list_part, encode_addrs_part}, Range/Address::write_to, RotationMessage::write_to against byte-exact output specifications; round-trip THEOREMS decode-spec(encode-spec(x)) == normalise(x) for peer lists (at most seven addresses per family, IPv6 first), claim lists and rotation messages. Proof (Kani, full domain): Range/Address codec. the encoder-side framing NodeInfo::encode_part (tag, length patched by seek-back, body of an FnOnce part writer - higher-order contract) and the parts block of NodeInfo::encode_internal (five closures): written bytes == enc_node(self); and the NodeInfo-level THEOREM decode-spec(enc_node(n)) == normalise(n). InitMsg::read_from (handshake) is proved total and signature-gated; its field values and InitMsg::write_to are NOT decided, nor are the three statements of encode_internal around the block (Cursor::new over MsgBuffer::buffer, set_length).',
    'verus': [{'unit': 'codec', 'rlimit': 100},
              # handshake message, cipher list: write side byte-exact + round trip against the decoder's format specification
              {'unit': 'initenc'}],
    'kani': {
        'files': {'src/types.rs': ['kani/types.rs']},
        'harnesses': [
            K(TY, 'range_codec_round_trip', 'Range::read_from(Range::write_to(r)) == r for every address length 0..=16, content and prefix 0..=255; encoding is len+2 bytes; decoded address canonical', fns=['types::Range::write_to', 'types::Range::read_from', 'types::Address::write_to', 'types::Address::read_from', 'types::Address::read_from_fixed']),
            K(TY, 'range_decode_total', 'Range::read_from on every byte string of length <= 20: value or error, never a panic; Ok only when len <= 16 and len+2 bytes are present', fns=['types::Range::read_from']),
            K(TY, 'address_read_from_fixed_contract', 'Address::read_from_fixed: len > 16 or short input => Err; else exactly the next len bytes, rest zero', fns=['types::Address::read_from_fixed']),
        ],
    },
    'trusted': CODEC_TRUSTED + ['std::io::Cursor / byteorder as compiled by Kani (real code, not stubbed) in the Kani harnesses'],
    'not_decided': [
        'InitMsg::write_to and the field-level decoding specification of InitMsg::read_from (read_from is proved total and to accept only correctly signed messages, its field values are not specified)',
        'NodeInfo::encode_internal outside its parts block: `Cursor::new(buffer.buffer())` before and `buffer.set_length(len)` after it (that the bytes written through the cursor are the message bytes of the buffer: a &mut borrow held by an opaque std type), and NodeInfo::encode = encode_internal(..).expect(..)',
        'over-long known fixed-size parts (peer timeout, node id, own addresses with a length other than their content): the format defines nothing, the contract leaves the result open (the decoder continues inside the part)',
    ],
}
PROPS['C20'] = {
    'level': 'proof',
    'level_text': 'Proof (Verus, real code): Config::merge_file and Config::merge_args, cut into four contiguous statement ranges each because the whole-function VC exceeds the solver limit, each range under a contract over the WHOLE configuration value generated from a field table written from the documentation (own fields: value of this source if given, else unchanged; lists append; every other field unchanged); Config::default against the documented defaults; Config::into_config_file carries every setting the file format can express. Proof (Kani): prefix guard and netmask expression of parse_ip_netmask for every u8 prefix length. The composition (defaults, then file, then command line, as main.rs calls them) is by sequential composition of these contracts, not machine-checked; text parsing (structopt, serde_yaml) and the hooks map are not covered.',
    'verus': [{'unit': 'config'}],
    'kani': {
        'files': {'src/main.rs': ['kani/netmask.rs.in']},
        'harnesses': [
            K('__verif_netmask::', 'netmask_for_every_prefix_length', 'parse_ip_netmask blocks (range guard + netmask expression): every u8 prefix length: > 32 => Err, else mask with that many leading ones, never a panic', fns=['main::parse_ip_netmask (blocks: guard, netmask expression)']),
        ],
    },
    'native_search': {r'config::.*': {'file': 'native/config_merge.rs', 'attach': 'src/config.rs', 'test': 'sources_combine_as_documented'}},
    'trusted': [
        'B1: merge_file / merge_args are verified as four adjacent statement ranges each (range k starts at the anchor where range k-1 ends; the first starts at the beginning of the body, the last runs to its end); the whole-function rule is the sequential composition of the range contracts',
        'R5 pinned statements: the hooks map loop of merge_file and the `name:script` loop of merge_args (HashMap iteration / str slicing); no contract on hook / hooks values',
        'Vec<String>::clone for the cipher list: only its length is specified',
        'u8::from_str / Ipv4Addr::from_str / str::find in parse_ip_netmask are std parsing, not under contract',
    ],
    'not_decided': [
        'that main.rs applies defaults, then the file, then the command line (call order in main())',
        'text parsing by structopt / serde_yaml; per-event hooks accumulate (pinned statements)',
    ],
}

TABLE_FNS = ['ClaimTable::new', 'ClaimTable::cache', 'ClaimTable::set_claims', 'ClaimTable::remove_claims', 'ClaimTable::lookup', 'ClaimTable::housekeep', 'lemma_.*']
TABLE_TRUSTED = [
    'vstd HashMap model with builds_valid_hashers::<BuildHasherDefault<FnvHasher>>() and obeys_key_model::<Address>() as axioms (sound for canonical addresses, which the dissectors produce: C19 harnesses assert the zero tail)',
    'the clock is in [1, 2^48) and does not advance within one ClaimTable operation',
    'R6: RangeList = SmallVec<[Range;4]> modelled by Vec<Range>',
    'R5 pinned statements: `self.cache.retain(|_, v| v.timeout >= now)` and the two `for entry in self.cache.values_mut()` loops are replaced by contract-only calls (their text is pinned: any edit => undecided)',
    'std contracts written in the unit: Vec::retain (verdict sequence), slice::Iter::position, SocketAddr ==, cmp::min; Range/Address == as field-wise/prefix equality (Address::eq proved by Kani harness address_eq_is_prefix_equality)',
    'Range::matches is used through its contract r == range_contains (proved for all inputs by Kani harness range_matches_is_prefix_match)',
]
PROPS['C15']['trusted'] = PROPS['C15']['trusted'] + TABLE_TRUSTED
PROPS['C12'] = {
    'level': 'proof',
    'verus': [{'unit': 'table', 'fns': TABLE_FNS},
              # node level: a peer removed by close message / replacement (remove_peer) or by timeout (housekeep) keeps no route; node
              # information sets exactly the announced claims (update_peer_info)
              {'unit': 'peers'},
              # the third way a peer leaves the map (crypto_housekeep on a failing tick, WITHOUT clearing claims) is unreachable for an
              # established peer object: its tick never fails
              {'unit': 'buffer', 'fns': ['PeerCrypto::every_second', 'PeerCrypto::(get_core|get_init|get_rotation|encrypt_message|handle_init_message|handle_message)']}],
    'native_search': {'table::ClaimTable::set_claims': [{'file': 'native/table_setclaims.rs', 'attach': 'src/table.rs', 'test': 'claims_equal_last_announcement'}, TABLE_MODEL],
                      r'table::.*': TABLE_MODEL, r'peers::GenericCloud.*': NODE_PEERS_DRV},
    'trusted': TABLE_TRUSTED + PEERS_TRUSTED + ['unit buffer: InitState (handshake object), RotationState and CryptoCore are opaque environment types; the contracts assumed for InitState::{handle_init, every_second, take_core} are the shared clause files under units/iface, PROVED in unit initstage'],
    'not_decided': [
        'node level, remaining: GenericCloud::crypto_housekeep removes a peer whose per-peer crypto tick fails WITHOUT remove_claims - PROVED unreachable for an established peer object (unit buffer, PeerCrypto::every_second: handshake object gone or finished and rotation only over a core ==> the tick returns Ok), but that every object in the peer map is in that state is by reading (it enters the map on Initialized / InitializedWithReply, which establish it: proved); the repair path of handle_interface_data (next hop not a peer) is unreachable behind `send_msg(..)?` (reading); add_new_peer',
        'duplicates and order of the claim list are not part of the contract (set semantics)',
    ],
}

PROPS['C08'] = {
    'level': 'proof',
    'level_text': 'Proof for the per-peer receive path: MsgBuffer, CryptoCore::decrypt/encrypt (buffer geometry) and PeerCrypto::{handle_message, decrypt_message, encrypt_message, send_message} verbatim in Verus: for EVERY well-formed buffer (any length incl. 0, any content) and every state of the peer object every callee precondition (index bounds, arithmetic, assert!) is established, i.e. no panic. NodeInfo::decode and RotationMessage::read_from (and the Range/Address decoders under them) are total on EVERY byte sequence (unit codec: no panic, no overflow, every loop terminates, allocation bounded by the 16-bit part length). InitMsg::read_from, the decoder every datagram with the handshake marker reaches before anything is known about its sender, is total as well (same unit; Cursor<&[u8]> through the same reader contracts). The handshake path BEHIND the decoder - reached by replayed or reordered genuine handshake datagrams in every stage - is proved as well (unit initstage): InitState::{handle_init (whole function), every_second, send_ping, repeat_last_message} verbatim: for every handshake object that satisfies its representation invariant (a handshake waiting for the pong still holds its ephemeral key; retry counter within its limit; stored last message fits a buffer) and every decoded message, no unwrap / assert / slice copy / arithmetic can fault, and the invariant is preserved - except after a FATAL error in the pong arm, which tells the node to discard the object. ECDH, AEAD, signing and the size of the own node information are environment assumptions.',
    'verus': [{'unit': 'buffer'}, {'unit': 'cloud', 'fns': ['GenericCloud::handle_net_message', 'GenericCloud::handle_message']},
              {'unit': 'codec', 'rlimit': 100, 'safety_only': True, 'fns': ['Address::read_from.*', 'Range::read_from', 'NodeInfo::(read_addr_list.*|decode.*)', 'RotationMessage::read_from', 'InitMsg::read_from', 'MsgBuffer::.*', 'lemma_flag_fields', 'lemma_prepend2', 'lemma_cur_adv', 'canary_.*']},
              # the handshake path BEHIND the decoder (reached by replayed genuine handshake datagrams in every stage): stage machine
              {'unit': 'initstage', 'safety_only': True, 'fns': STAGES_FNS}],
    'kani': {
        'files': {'src/crypto/core.rs': ['kani/coreblocks.rs.in', 'kani/core.rs']},
        'harnesses': [
            K(CORE, 'decrypt_with_key_contract', 'a datagram that fails verification (too old, or rejected by the AEAD) leaves no state behind in the key slot: min/next/seen/send counters unchanged', fns=['crypto::core::CryptoCore::decrypt_with_key']),
            H_DEC,
        ],
    },
    'native_search': {'buffer::CryptoCore::decrypt': {'file': 'native/core_short_datagram.rs', 'attach': 'src/crypto/core.rs', 'test': 'decrypt_is_total_on_short_datagrams'},
                      r'kani::core::decrypt_with_key_contract': WINDOW_DRV,
                      'kani::coreblocks::decrypt_block_contract': {'file': 'native/core_keyid.rs', 'attach': 'src/crypto/core.rs', 'test': 'altered_key_id_is_rejected'}},
    'trusted': [
        'unit buffer takes InitState::handle_init as environment: total on every well-formed buffer, leaves the buffer start at space_before, leaves the buffer empty when the responder side completes - these clauses are PROVED in unit initstage (for objects satisfying the representation invariant and space_before <= 1024); PeerCrypto::handle_init_message itself is verified verbatim (RotationState::new as environment)',
        'env: PeerCrypto::handle_rotate_message / RotationMessage parsing is reached only after the AEAD opened the datagram, i.e. not by an outsider',
        'the header/AEAD blocks inside CryptoCore::decrypt/encrypt are replaced by stand-ins here (rule B2); they are under contract as blocks in the Kani harnesses coreblocks::{decrypt,encrypt}_block_contract',
        'ring AEAD verdict is an oracle',
    ],
    'not_decided': [
        'ring operations inside the handshake (ECDH agreement, AEAD, signing), InitState::send_message / InitMsg::write_to (`expect("Buffer too small")` depends on the size of the OWN node information, not on the datagram), and that the node keeps the representation invariant of every stored handshake object (discarding after a fatal error): see trusted',
        'node level dispatch (GenericCloud::handle_net_message frame) - see unit cloud when claimed',
        'observation (outside the quantifier of C08, sender holds a trusted key): a sealed datagram with EMPTY plaintext makes handle_message call take_prefix on an empty buffer, leaving start = end + 1; the next MsgBuffer::len()/message() underflows/panics',
    ],
}

PROPS['C08']['trusted'] = PROPS['C08']['trusted'] + CODEC_TRUSTED
PROPS['C08']['native_search'][r'codec::(NodeInfo|Range|Address).*'] = CODEC_DRV
PROPS['C08']['native_search'][r'codec::InitMsg.*'] = dict(INIT_DRV, env={'VERIF_ONLY_PANICS': '1'})
PROPS['C08']['native_search'][r'initstage::.*'] = STAGES_DRV
PROPS['C08']['trusted'] = PROPS['C08']['trusted'] + STAGES_TRUSTED

CLB = 'cloud::__verif_cloudblocks::'
PROPS['C13'] = {
    'level': 'proof',
    'level_text': 'Proof of the three per-function ingredients of switch learning: (1) Frame::parse yields the per-VLAN key (8-byte vid||mac for a 12-bit VLAN id != 0, 6-byte mac for untagged AND priority-tagged frames, PCP/DEI and nested tags ignored) for every frame (Kani, full content); (2) the learned entry is ClaimTable::cache (last writer wins, expires after the switch timeout, removed by housekeep when expired and by remove_claims when the peer goes) (Verus); (3) the mode table: learning exactly for switch (and normal/tap), never for hub/router (Kani block). The call site `if self.learning { self.table.cache(src, peer) }` is under contract in unit cloud (C10).',
    'verus': [{'unit': 'table', 'fns': ['ClaimTable::cache', 'ClaimTable::housekeep', 'ClaimTable::remove_claims', 'ClaimTable::lookup', 'ClaimTable::new', 'lemma_.*']},
              {'unit': 'cloud', 'fns': ['GenericCloud::handle_payload_from', 'GenericCloud::handle_message']},
              # "... or P disconnects": every way a peer leaves the peer map at node level (close message / replacement: remove_peer;
              # peer timeout: expiry statements of housekeep) clears what was learned from it
              {'unit': 'peers', 'fns': ['GenericCloud::remove_peer', 'GenericCloud::housekeep_expiry_block', 'lemma_take_contains', 'canary_.*']}],
    'native_search': {r'table::.*': [TABLE_MODEL, ISO_DRV], r'peers::GenericCloud.*': NODE_PEERS_DRV, r'cloud::.*': ISO_DRV, r'kani::cloudblocks::.*': ISO_DRV},
    'kani': {
        'files': {'src/payload.rs': ['kani/payload.rs'], 'src/cloud.rs': ['kani/cloudblocks.rs.in'], 'src/types.rs': ['kani/types.rs']},
        'harnesses': [
            # the learning key of a priority-tagged frame IS the key of the untagged one only because Address equality (and hashing) looks at
            # the first `len` bytes alone (seed C13-6)
            K('types::__verif_types::', 'address_eq_is_prefix_equality', 'Address::eq == same length and same first len bytes (what lies behind them - e.g. the bytes the VLAN-0 fold of Frame::parse leaves - does not count)', fns=['types::Address::eq']),
            K(PAY, 'frame_parse_len_le_1600', 'Frame::parse: learning key = 12-bit VLAN id || MAC; VLAN 0 and untagged give the bare MAC; all 65536 TCI values; nested tags ignored', fns=['payload::Frame::parse']),
            K(CLB, 'mode_table_matches_documentation', 'GenericCloud::new mode block: learning iff switch or normal/tap; hub and router never learn', fns=['cloud::GenericCloud::new (block: mode table)']),
            K(CLB, 'table_gets_switch_and_peer_timeouts', 'GenericCloud::new: the table is built with (switch_timeout, peer_timeout)', fns=['cloud::GenericCloud::new (block: ClaimTable::new arguments)']),
        ],
    },
    'trusted': TABLE_TRUSTED + PEERS_TRUSTED,
    'not_decided': ['multi-node histories (frames interleaved with time steps and disconnects across 3-4 nodes): only the per-operation contracts are proved; their composition over histories is by induction on the table view, not machine-checked at node level'],
}

KEYS_DRV = {'file': 'native/keys_roundtrip.rs', 'attach': 'src/crypto/common.rs', 'test': 'printed_keys_are_accepted'}
PROPS['C18'] = {
    'level': 'proof',
    'level_text': 'Proof (Verus, unbounded lengths) that the text codec is value-exact: base62_add_mult_16, to_base62 and from_base62 verbatim against positional-value specs (text value == big-endian byte value, canonical forms, first bad character), and that Crypto::{decode_key, parse_public_key, parse_private_key, parse_keypair} accept the text of EVERY 32-byte string (also with leading zero bytes) and hand exactly those bytes to the key constructor; Crypto::{generate_keypair, keypair_from_password}: the printed pair is the text of a 32-byte seed and of its public key, and with a password the seed is PBKDF2 of the whole password in both functions (same password, same keys). ring key objects and PBKDF2 are uninterpreted functions.',
    'verus': [{'unit': 'base62', 'fns': ['(?!lemma_roundtrip_any_body).*']}],
    'native_search': {r'base62::(to_base62|from_base62|base62_add_mult_16)': BASE62_DRV,
                      r'base62::Crypto::(keypair_from_password|generate_keypair)': {'file': 'native/keys_password.rs', 'attach': 'src/crypto/common.rs', 'test': 'password_keys_are_deterministic_and_use_the_whole_password'},
                      r'base62::Crypto::.*': KEYS_DRV},
    'trusted': [
        'ring: Ed25519KeyPair::from_seed_unchecked / from_seed_and_public_key as uninterpreted functions of the seed (accept exactly 32-byte seeds; public key is a function of the seed)',
        'std contracts written in the unit: <[T]>::reverse, <[T]>::clone_from_slice, String::with_capacity; R5 pinned statement `buf[0..buflen].reverse();`',
        'str::chars / String::push / Vec specs of vstd',
    ],
    'not_decided': [
        'PBKDF2 itself and Ed25519 key derivation (ring) are uninterpreted functions; generate_keypair / keypair_from_password are under contract with the pbkdf2::derive call as a pinned statement (the seed is PBKDF2 of ALL bytes of the password, the same term in both)',
        'that nodes sharing a password complete a handshake (C01/C05)',
    ],
}

PROPS['C17'] = {
    'level': 'proof',
    'level_text': 'Partial. Proved (Verus, unbounded lengths): the text codec to_base62/from_base62 is value-exact, so a body that does not start with a zero byte survives the text form; mask_with_keystream is an involution for every body length (SHA-512 as uninterpreted function) and never faults. Proved (Kani, all 2^48 triples): the age window is the cyclic distance of the hour stamps in either direction. Proved (Verus): BeaconSerializer::peerlist_decode and decrypt_data verbatim never panic for ANY alphanumeric text (what decode hands over after sanitising), any age limit, any password: the expect, the three assert!s, every slice range and subtraction are justified; get_keystream hashes the whole password. BeaconSerializer::decode verbatim: for EVERY text the marker search terminates and no string slice is out of order or out of bounds (F12 was found by this contract and repaired). Known finding: bodies starting with 0x00 are not recovered. NOT decided by contracts: that every embedded beacon is FOUND and the field layout written by peerlist_encode (the VALUE of the round trip) - searched on every run by the bounded stand-ins native/beacon_layout.rs and native/beacon_markers.rs (labelled bounded); the 1-byte seed check.',
    'verus': [{'unit': 'base62', 'fns': ['base62_add_mult_16', 'to_base62', 'from_base62', 'lemma_.*']}, {'unit': 'beacon'}],
    'kani': {
        'files': {'src/beacon.rs': ['kani/beaconblocks.rs.in']},
        'harnesses': [K('beacon::__verif_beaconblocks::', 'beacon_age_window_is_cyclic_distance', 'age test of peerlist_decode: rejected <=> cyclic distance of the 16-bit hour stamps > ttl, in either direction; all 2^48 triples', fns=['beacon::BeaconSerializer::peerlist_decode (block: age test)'])],
    },
    'native_search': {r'base62::(to_base62|from_base62|base62_add_mult_16)': BASE62_DRV,
                      'kani::beaconblocks::beacon_age_window_is_cyclic_distance': {'file': 'native/beacon_age.rs', 'attach': 'src/beacon.rs', 'test': 'beacon_age_window_is_cyclic'},
                      'base62::lemma_roundtrip_any_body': {'file': 'native/beacon_roundtrip.rs', 'attach': 'src/beacon.rs', 'test': 'beacons_round_trip_for_every_hour'},
                      r'beacon::BeaconSerializer::get_keystream': {'file': 'native/beacon_password.rs', 'attach': 'src/beacon.rs', 'test': 'beacons_of_other_passwords_are_ignored'},
                      r'beacon::BeaconSerializer::mask_with_keystream': {'file': 'native/beacon_long_text.rs', 'attach': 'src/beacon.rs', 'test': 'long_beacon_bodies_do_not_panic'},
                      r'beacon::BeaconSerializer::decode': {'file': 'native/beacon_markers.rs', 'attach': 'src/beacon.rs', 'test': 'marker_search_never_panics'}},
    'trusted': [
        'SHA-512 key stream as an uninterpreted function ks(password, type, seed, block) of length 64; R6: SmallVec<[u8;64]> modelled by Vec<u8>',
        'std contracts written in the units: <[T]>::reverse, String::with_capacity; R5 pinned `buf[0..buflen].reverse();`',
    ],
    'not_decided': [
        'marker search in arbitrary text: BeaconSerializer::decode is proved PANIC-FREE and terminating for every text (str::find and string slicing through wrappers with their panic conditions as preconditions; F12 found by this contract); that it finds every embedded beacon (value) is not under contract',
        'peerlist_encode, and the VALUES peerlist_decode returns (field layout): peerlist_decode is proved panic-free, not value-exact; its age-test statements (std::num::Wrapping) are a pinned call there and a Kani block for the condition',
        'rejection of beacons made with a different password beyond "the whole password reaches the SHA-512 input" (get_keystream contract + lemma_ks_input_injective): the 1-byte seed check and the marker comparison are not under contract; collision resistance is the cipher assumption',
    ],
}

CLOUD_TRUSTED = [
    'observable effects are modelled by two ghost logs (Device::written, Socket::sent) appended by Device::write / Socket::send; the traits are declared in the unit with exactly these contracts',
    'frames of GenericCloud::{add_new_peer, update_peer_info, remove_peer, connect_sock} (interface and learning flag untouched; remove_peer sends nothing): shared clause files units/iface/cloud_frame*.ensures, assumed in unit cloud, PROVED on the real bodies in unit peers (under C10: obligations peers::GenericCloud::{add_new_peer, update_peer_info, remove_peer, connect_sock, housekeep_expiry_block}); send_to the other way round (proved in cloud, assumed in peers)',
    'opaque environment with ASSUMED frames (not typed by Verus: HashMap iteration, labelled continue): GenericCloud::broadcast_msg does not write to the interface; GenericCloud::connect_to_peers (called by update_peer_info) touches neither the interface nor the learning flag',
    'PeerCrypto::handle_message never reports a handshake datagram as Message(_): assumed in unit cloud, PROVED in unit buffer (obligations PeerCrypto::handle_message / handle_init_message, with InitState::handle_init as environment)',
    'HashMap<SocketAddr,_> through the vstd model (obeys_key_model::<SocketAddr>, builds_valid_hashers as axioms); HashMap::get_mut contract written in the unit',
    'R4: GenericCloud/PeerData pruned to the fields the dispatch functions use; R1: self.config.call_hook(..) statement and log macros dropped; R5: NodeInfo::decode(Cursor::new(..)) replaced by an opaque call',
]
PROPS['C10'] = {
    'level': 'proof',
    'level_text': 'Proof (Verus, functions verbatim, environment opaque) of the isolation frame conditions: a payload received from a peer causes no datagram to leave the node (no relaying) and at most one interface write, byte-identical to the payload; only the DATA arm of handle_message writes to the interface; datagrams from addresses that are neither peers nor in a handshake never reach the interface, and if they are not handshake messages change nothing but counters; frames read from the own interface are never written back to it; send_msg sends nothing to a non-peer and at most one datagram, to the selected peer. The mode table deciding whether unknown destinations are flooded and whether traffic teaches next hops is a Kani block (all mode x device combinations). NOT decided by contracts: exactly-once delivery to every selected peer (broadcast loop over a HashMap), byte-identity across the AEAD, one peer entry per node (connect_to_peers: labelled loops) - searched on every run by the bounded stand-ins native/node_isolation.rs (every mode x device type, conservation per frame) and native/connect_peers.rs (labelled bounded).',
    'verus': [{'unit': 'cloud'},
              # the frames unit cloud assumes for the peer-management functions, proved on their real bodies
              {'unit': 'peers', 'fns': ['GenericCloud::(add_new_peer|update_peer_info|remove_peer|connect_sock|housekeep_expiry_block)', 'lemma_take_contains', 'canary_.*']},
              # which peer is "selected" for a frame: the learned / claimed next hop (last writer wins, longest prefix)
              {'unit': 'table', 'fns': ['ClaimTable::cache', 'ClaimTable::lookup']}],
    # who is selected also depends on the two mode flags (flood unknown destinations? learn from traffic?): the mode table of GenericCloud::new
    'kani': {
        'files': {'src/cloud.rs': ['kani/cloudblocks.rs.in']},
        'harnesses': [K(CLB, 'mode_table_matches_documentation', 'GenericCloud::new mode block: unknown destinations are flooded iff hub, switch or normal/tap; learning iff switch or normal/tap; router (and normal/tun) neither floods nor learns', fns=['cloud::GenericCloud::new (block: mode table)'])],
    },
    'native_search': {r'table::.*': [TABLE_MODEL, ISO_DRV], r'cloud::.*': ISO_DRV, r'peers::.*': ISO_DRV, r'kani::cloudblocks::.*': ISO_DRV},
    'trusted': CLOUD_TRUSTED + TABLE_TRUSTED,
    'not_decided': [
        'exactly-once delivery to every selected peer and to no other (GenericCloud::broadcast_msg iterates a HashMap: no iterator spec in this Verus)',
        'byte-identical delivery end to end (crosses PeerCrypto::send_message / handle_message: buffer geometry is under C08, AEAD is an oracle)',
        'control traffic (handshake replies, node info, connect attempts) is outside the claim: update_peer_info / add_new_peer may send',
    ],
}

PROPS['C01'] = {
    'level': 'proof',
    'level_text': 'PARTIAL - the four mechanisms of this property, as contracts on the real code (Verus): (1) InitMsg::read_from returns a message only if it carries an Ed25519 signature that is valid, under a key of the trusted list - the one selected by the salted hash in the first 8 bytes - over ALL bytes up to and including the end marker; for every byte sequence and every trusted list, with termination and memory safety. (2) InitState::handle_init, from its first statement up to the decoder call: when the decoder rejects, the error is returned with the handshake object and the buffer geometry unchanged ("without altering a handshake already in progress"). (3) the statements of GenericCloud::handle_net_message that treat a handshake datagram from an address without pending handshake: the responder object is stored only if it accepted that first message; otherwise no pending entry, no peer, nothing sent ("without creating a peer ... without any reply"); and GenericCloud::add_new_peer creates a peer entry only out of the pending handshake object of that address (consumed), never otherwise. Ed25519 and SHA-256 are uninterpreted functions (unforgeability is the cipher assumption). (4) InitState::handle_init as a whole (unit initstage): success is reported only from the stage that expects it (pong for the initiator, peng for the responder), at most once per object (a finished object never completes again, whatever is replayed to it), and only after the payload of the peer OPENED under the core of this attempt - for the initiator the core derived from the selected algorithm, the ephemeral key of this attempt and the public key of the peer. NOT decided by contracts: that two nodes become peers EXACTLY when each trusts the other (needs the whole handshake: C05) - searched on every run by the bounded stand-in native/trust_matrix.rs (two and three real nodes, every trusted-key configuration, both dial directions; labelled bounded); lingering / pending handshake objects receiving the datagram (PeerCrypto::handle_message is an environment function at node level), key parsing and the trusted-list construction in Crypto::new.',
    'verus': [{'unit': 'codec', 'rlimit': 100, 'fns': ['InitMsg::read_from', 'InitState::handle_init_until_decoded', 'MsgBuffer::.*', 'lemma_cur_adv', 'canary_.*']},
              {'unit': 'cloud', 'fns': ['GenericCloud::responder_block', 'GenericCloud::handle_net_message']},
              # "accepts its payload only from a party that proved possession": before the handshake produced a core, or plain mode was
              # negotiated, no non-handshake datagram is interpreted by the per-peer object (also while the handshake is pending)
              {'unit': 'buffer', 'fns': ['PeerCrypto::(decrypt_message|handle_message|handle_init_message|get_core|get_init|new|initialize)', 'is_init_message']},
              # a peer entry is created only out of a pending handshake object for that address (GenericCloud::add_new_peer)
              {'unit': 'peers', 'fns': ['GenericCloud::add_new_peer', 'GenericCloud::update_peer_info', 'canary_.*']},
              # mechanisms (2) and (4) on the WHOLE of InitState::handle_init: nothing altered when the decoder rejects; success only
              # from the stage that expects it, once, and only after the peer's payload opened under the core of this attempt
              {'unit': 'initstage', 'fns': ['InitState::handle_init', 'InitMsg::(stage|salted_node_id_hash)', 'canary_.*']}],
    'native_search': {r'codec::(InitMsg|InitState).*': INIT_DRV, r'initstage::.*': STAGES_DRV},
    'trusted': CODEC_TRUSTED + CLOUD_TRUSTED + STAGES_TRUSTED + [
        'ring: Ed25519 verification and SHA-256 as uninterpreted functions ed25519_ok(key, data, signature), key_hash4(key, salt); R5 pinned statements: `signature::UnparsedPublicKey::new(&ED25519, &public_key_data)` + `public_key.verify(signed_data, &signature).is_err()`, `Self::calculate_hash(tk, &public_key_salt) == public_key_hash`',
        'B1 stand-in for InitState: the plain-data fields (node id, salted hash, payload, trusted keys as Vec, stage, close time, last message, retry counter); the key objects (ECDH private key, key pair, crypto core, algorithms) are not part of the stand-in, so the frame condition does not cover them',
        'unit cloud: ghost counter accepted(PeerCrypto) advanced by the environment function PeerCrypto::handle_message exactly when it returns Ok; for a fresh responder "accepted" means InitState::handle_init returned Ok (PeerCrypto::handle_init_message is read, not proved)',
    ],
    'not_decided': [
        'two nodes become peers exactly when each trusts the other key (whole-handshake agreement, see C05)',
        'observation (plain mode only, by reading; outside what "unless both ends enabled plain" protects): with no cipher the payload of a peng is not bound to the attempt, so a replayed ping + peng of an earlier session completes a responder handshake; with a cipher the replayed peng does not open under the fresh key (mechanism 4)',
        'datagrams for addresses WITH a pending or lingering handshake object: they go to that object (PeerCrypto::handle_message, environment function in unit cloud); that a rejected one does not alter it rests on (2) plus reading of PeerCrypto::handle_init_message',
        'trust relations among several key pairs (Crypto::new, password-derived keys): configurations, not contracts',
    ],
}

OWN_DRV = {'file': 'native/own_addresses.rs', 'attach': 'src/tests/common.rs', 'test': 'own_addresses_are_adopted_not_dialled_and_never_a_peer'}
SELF_DRV = {'file': 'native/self_connect.rs', 'attach': 'src/crypto/init.rs', 'test': 'a_node_recognises_itself_under_any_salt'}
PROPS['C14'] = {
    'level': 'proof',
    'level_text': 'PARTIAL - only the SAFETY half ("a node never ends up with itself as a peer ... addresses that peers list under the node\'s own identity are adopted as its own and not dialled"), as contracts on the real code (Verus): InitState::new advertises salt || SHA-256(salt || node id)[..16] (block), InitState::check_salted_node_id_hash answers exactly "is this the salted hash of my node id", and the theorem that every handshake object of a node recognises the hash of every other handshake object of the same node, whatever salts they drew - so a node that reaches itself through an address it does not know to be its own refuses the handshake; the equal-hash disjunct of the "Connected to self" test (Kani block); GenericCloud::connect_sock never dials an address the node knows to be its own (nor a peer, nor one with a pending handshake); the statements of connect_to_peers that adopt the addresses listed under the own node id (block). SHA-256 is an uninterpreted function. NOT decided by contracts: the first sentence of the property (a connected bootstrap graph becomes a full mesh within a bounded number of exchange intervals, NAT traversal) - liveness over multi-node histories; it is searched on every run by the bounded stand-in native/mesh_formation.rs (2-5 nodes, reliable delivery, no NAT), labelled bounded. The call site in connect_to_peers (labelled loops, HashMap iteration) is outside Verus and searched by native/connect_peers.rs. One mechanism of the NAT clause is under contract: GenericCloud::update_peer_info keeps the address a peer is seen at among the first 7 addresses of its entry (what the peer-list encoder keeps per family); native/connect_peers.rs searches the end-to-end statement (the peer list a node sends lists each peer with the address it sees it at, 0..11 advertised addresses; bounded).',
    'verus': [{'unit': 'selfid'},
              {'unit': 'peers', 'fns': ['GenericCloud::connect_sock', 'GenericCloud::adopt_own_addresses_block', 'GenericCloud::update_peer_info', 'canary_.*']},
              # the call site: in EVERY stage a message whose hash is the own one, or that the self-recognition test accepts, never
              # completes a handshake (InitState::handle_init, whole function)
              {'unit': 'initstage', 'fns': ['InitState::handle_init', 'InitMsg::(stage|salted_node_id_hash)', 'canary_.*']}],
    'kani': {
        'files': {'src/crypto/init.rs': ['kani/initblocks.rs.in']},
        'harnesses': [K(IB, 'nonce_halves_are_opposite', 'the "Connected to self" test of handle_init fires whenever the received salted hash equals the own one (first disjunct; the second disjunct is InitState::check_salted_node_id_hash, proved in unit codec)', fns=['crypto::init::InitState::handle_init (block: self test)'])],
    },
    'native_search': {r'selfid::.*': SELF_DRV, r'initstage::.*': [STAGES_DRV, OWN_DRV], r'peers::GenericCloud::(connect_sock|adopt_own_addresses_block)': OWN_DRV},
    'trusted': CODEC_TRUSTED + PEERS_TRUSTED + STAGES_TRUSTED + ['SHA-256 (ring::digest) as an uninterpreted function with 32-byte results; R5 pinned statements: `digest::digest(&digest::SHA256, &x)`, `rng.fill(&mut hash[0..4]).unwrap()`, the slice comparison in check_salted_node_id_hash'],
    'not_decided': [
        'liveness (first sentence of the property): full mesh from any connected bootstrap graph within a bounded number of peer-exchange intervals - a multi-node history property no per-function contract decides; searched on every run by the BOUNDED stand-in native/mesh_formation.rs (trees / chains / stars / a ring on 2-5 nodes, three orientations, three crypto settings, reliable delivery, 1000 s); NAT cases are not covered',
        'that connect_to_peers skips the entry after adopting its addresses (`continue \'outer`): reading',
        'own-address learning through other paths (reset_own_addresses, port forwarding)',
    ],
}

# Fallback search: EVERY obligation of a property that fails without counterexample or cannot be generated (a refactoring that the
# extraction or the verifier front end does not follow) is handed to all drivers of that property - the specific ones first, then these.
# Drivers registered for a known finding are left out (they find their input on the unchanged tree by design).
_EXTRA = {
    'C01': [INIT_DRV, STAGES_DRV, ISO_DRV], 'C02': [ISO_DRV, WINDOW_DRV, NONCE_DRV], 'C03': [WINDOW_DRV], 'C04': [NONCE_DRV, WINDOW_DRV],
    'C06': [NEG_DRV, INIT_DRV, STAGES_DRV], 'C08': [STAGES_DRV, ISO_DRV], 'C10': [ISO_DRV, TABLE_MODEL], 'C11': [TABLE_MODEL, ISO_DRV, NODE_PEERS_DRV],
    'C12': [TABLE_MODEL, NODE_PEERS_DRV, ISO_DRV], 'C13': [TABLE_MODEL, ISO_DRV, NODE_PEERS_DRV], 'C14': [SELF_DRV, STAGES_DRV, OWN_DRV],
    'C15': [NODE_PEERS_DRV], 'C16': [CODEC_DRV, INIT_DRV], 'C19': [ISO_DRV],
    'C17': [{'file': 'native/beacon_layout.rs', 'attach': 'src/beacon.rs', 'test': 'beacons_are_recovered_exactly'}, {'file': 'native/beacon_markers.rs', 'attach': 'src/beacon.rs', 'test': 'marker_search_never_panics'}],
}
for _pid, _P in PROPS.items():
    _ns = _P.setdefault('native_search', {})
    _all = []
    for _k, _v in list(_ns.items()):
        for _d in (_v if isinstance(_v, list) else [_v]):
            if _d not in _all and 'beacon_roundtrip' not in _d['file'] and not _d.get('env'):
                _all.append(_d)
    for _d in _EXTRA.get(_pid, []):
        if _d not in _all:
            _all.append(_d)
    if _all:
        _ns[r'.*'] = _all

# Bounded stand-ins in the QUICK tier: the clauses of a property that live in code no contract within reach decides (node-level histories,
# HashMap iteration, labelled loops, ring objects) are searched by these drivers on every run; they are reported as `bounded` obligations
# (`native::<driver>`), never as proved. Each driver counts only the failures tagged with the property it runs for.
CONNECT_DRV = {'file': 'native/connect_peers.rs', 'attach': 'src/cloud.rs', 'test': 'peer_lists_lead_to_the_right_dials'}
TRUST_DRV = {'file': 'native/trust_matrix.rs', 'attach': 'src/tests/common.rs', 'test': 'nodes_peer_exactly_when_each_trusts_the_other'}
MESH_DRV = {'file': 'native/mesh_formation.rs', 'attach': 'src/tests/common.rs', 'test': 'connected_bootstrap_graphs_become_full_meshes'}
LAYOUT_DRV = {'file': 'native/beacon_layout.rs', 'attach': 'src/beacon.rs', 'test': 'beacons_are_recovered_exactly'}
MARKERS_DRV = {'file': 'native/beacon_markers.rs', 'attach': 'src/beacon.rs', 'test': 'marker_search_never_panics'}
_QUICK = {
    'C01': [STAGES_DRV, TRUST_DRV], 'C02': [ISO_DRV], 'C04': [NONCE_DRV], 'C06': [NEG_DRV], 'C08': [STAGES_DRV], 'C10': [ISO_DRV, CONNECT_DRV], 'C11': [ISO_DRV],
    'C12': [NODE_PEERS_DRV], 'C13': [ISO_DRV, NODE_PEERS_DRV], 'C14': [OWN_DRV, CONNECT_DRV, MESH_DRV, STAGES_DRV], 'C15': [NODE_PEERS_DRV], 'C17': [LAYOUT_DRV, MARKERS_DRV], 'C18': [KEYS_DRV],
    'C20': [{'file': 'native/config_merge.rs', 'attach': 'src/config.rs', 'test': 'sources_combine_as_documented'}],
}
for _pid, _l in _QUICK.items():
    PROPS[_pid]['quick_native'] = _l
    for _d in _l:
        if _d not in PROPS[_pid]['native_search'].setdefault(r'.*', []):
            PROPS[_pid]['native_search'][r'.*'].append(_d)

NOT_APPLICABLE = {
    'C05': 'all-schedules agreement and recovery of two retransmitting state machines plus a liveness bound: a protocol-level joint invariant and liveness, outside per-function contracts',
    'C07': 'invariant over the product of two RotationStates, eight key slots and in-flight messages with key identity defined through ECDH; liveness clause; not decidable by per-function contracts within reach',
    'C09': 'whole-history property of 2-3 nodes over hundreds of seconds; no function-level contract expresses it without being stronger than the property',
}
