#!/usr/bin/env python3
"""Runs every native driver registered in props.py against the unchanged tree: a driver must PASS there (it is only consulted when an
obligation fails or cannot be generated; a driver that fails on correct code would turn an undecided run into a false alarm).
Known findings: drivers registered for an obligation listed in known_findings.txt are expected to find their input."""
import os, sys, re, json
sys.path.insert(0, os.path.dirname(os.path.abspath(__file__)))
import props, native
known = set(re.findall(r'finding:\s+property=\S+\s+obligation=(\S+)', open(os.path.join(os.path.dirname(__file__), '..', 'known_findings.txt')).read()))
seen, bad = {}, 0
os.makedirs('/var/tmp/vpv/selftest', exist_ok=True)
for pid, P in sorted(props.PROPS.items()):
    for pat, drv in [(pat, d) for pat, dl in P.get('native_search', {}).items() for d in (dl if isinstance(dl, list) else [dl])]:
        key = (drv['file'], drv['test'])
        if key in seen:
            continue
        r = native.run_driver(drv, sys.argv[1] if len(sys.argv) > 1 else '/repo', '/var/tmp/vpv/selftest')
        expect_found = pat in known
        ok = r['ran'] and (r['found'] == expect_found)
        seen[key] = ok
        bad += 0 if ok else 1
        print('%-32s %-44s ran=%s found=%s expected_found=%s %s' % (drv['file'], drv['test'], r['ran'], r['found'], expect_found, 'OK' if ok else 'PROBLEM'))
        if not ok:
            print(r['output_tail'][-800:])
sys.exit(1 if bad else 0)
