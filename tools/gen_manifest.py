#!/usr/bin/env python3
"""Writes /verif/MANIFEST.json from tools/props.py (single source of truth for what is claimed)."""
import json, os, os, sys
HERE = os.path.dirname(os.path.abspath(__file__))
sys.path.insert(0, HERE)
import props

VERIF = os.path.dirname(HERE)
ALL = ['C%02d' % i for i in range(1, 21)]
def technique_of(P):
    units = sorted(set(u['unit'] for u in P.get('verus', [])))
    hs = P.get('kani', {}).get('harnesses', [])
    nb = len([h for h in hs if h.get('kind') == 'B'])
    parts = []
    if units:
        parts.append('Verus contracts on functions extracted verbatim from /repo each run (unit%s %s)' % ('s' if len(units) > 1 else '', ', '.join(units)))
    if hs:
        parts.append('%d Kani/CBMC harness(es) over full symbolic domains on the real crate%s' % (len(hs) - nb, (' + %d bounded' % nb) if nb else ''))
    qn = [os.path.basename(d['file']).split('.')[0] for d in P.get('quick_native', [])]
    t = 'contract-based deductive verification of the real code: ' + '; '.join(parts)
    if qn:
        t += '; bounded stand-ins for clauses outside the verifiers\' reach (labelled bounded, not proof): native search driver%s %s' % ('s' if len(qn) > 1 else '', ', '.join(qn))
    return t


checks = []
for pid in ALL:
    if pid not in props.PROPS:
        continue
    P = props.PROPS[pid]
    nk = len(P.get('kani', {}).get('harnesses', []))
    nv = len(P.get('verus', []))
    default_text = ('Proof: every contract registered for this property in tools/props.py is discharged for all inputs '
                    '(%d Kani/CBMC harness(es) over full symbolic domains on the real crate, %d Verus unit(s) over functions extracted verbatim from /repo on each run). '
                    'What is under contract and what is not decided is listed in the evidence file (functions_under_contract, not_decided).' % (nk, nv))
    default_note = 'Trusted: ' + '; '.join(props.GLOBAL_TRUSTED + P.get('trusted', [])) + '. Not decided: ' + ('; '.join(P.get('not_decided', [])) or 'nothing further')
    checks.append({
        'property_id': pid,
        'quick_cmd': './check %s --tier quick' % pid,
        'thorough_cmd': './check %s --tier thorough' % pid,
        'evidence_file': '/verif/evidence/%s.json' % pid,
        'replay_cmd_template': './check %s --replay {path}' % pid,
        'engine': P.get('engine', 'contracts'),
        'level_claimed': {'category': P.get('level', 'proof'), 'text': P.get('level_text', default_text), 'design_ref': 'DESIGN.md §4 ' + pid},
        'level_note': P.get('level_note', default_note),
        'technique': P.get('technique', technique_of(P)),
    })
na = [{'property_id': pid, 'reason': props.NOT_APPLICABLE[pid]} for pid in ALL if pid not in props.PROPS]
m = {
    'version': 1,
    'setup_cmd': './setup.sh',
    'hooks': {
        'guard': 'kani',
        'enable': 'no source hooks: Kani harness modules live in /verif/kani and are attached to a scratch copy of /repo by appending `#[cfg(kani)] #[path=..] mod ..;` lines there; Verus units are extracted from /repo on every run; native driver modules live in /verif/native and are attached to a scratch copy the same way (`#[cfg(test)] #[path=..] mod ..;`). /repo itself is never touched by a check',
        'baseline_off_cmd': 'cd /repo && cargo test --workspace --no-fail-fast --offline',
        'source_commits': [],
        'add_only': True,
    },
    'engines': [
        {'name': 'contracts', 'path': '/verif/check', 'serves_properties': [c['property_id'] for c in checks],
         'kind_free_text': 'contract-based deductive verification: Verus on functions extracted verbatim from /repo each run (tools/extract.py), Kani/CBMC function-level harnesses on a scratch copy of the whole crate'},
    ],
    'checks': checks,
    'not_applicable': na,
    'notes': 'exit 0 = all locked obligations discharged; exit 1 = a locked obligation failed (VIOLATION line); exit 2 = undecided (lost anchor / unsupported construct / resource limit), never an alarm. See DESIGN.md.',
}
json.dump(m, open(os.path.join(VERIF, 'MANIFEST.json'), 'w'), indent=1)
print('MANIFEST.json: %d checks, %d not applicable' % (len(checks), len(na)))
