#!/bin/bash
# runs every claimed check on the current tree (quick tier) and prints one line per check; exit 0 iff all exit 0
cd /verif
rc=0
for p in $(python3 -c "import sys; sys.path.insert(0,'tools'); import props; print(' '.join(sorted(props.PROPS)))"); do
  out=$(./check $p ${1:-} 2>&1); e=$?
  echo "$(echo "$out" | tail -1)  [exit $e]"
  if [ $e -ne 0 ]; then rc=1; echo "$out" | grep -E "^(UNDECIDED|VIOLATION|FAILED)" | head -5; fi
done
exit $rc
