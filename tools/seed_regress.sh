#!/bin/bash
# usage: tools/seed_regress.sh [seed ...]   (default: all seeds)
# Re-evaluates seeded changes against the check of their own property (tools/seed_eval.sh) and prints one line per seed:
#   <seed> <property> exit=<code>   - exit 1 (VIOLATION) is the expected outcome for every seed
cd /verif
seeds=${@:-$(ls seeded | grep -E '^C[0-9]+-[0-9]+$')}
for S in $seeds; do
  P=$(python3 -c "import json; print(json.load(open('seeded/$S/meta.json'))['property'])")
  out=$(tools/seed_eval.sh $S $P 2>&1)
  echo "$S $P $(echo "$out" | grep -E '^exit=' | tail -1) $(echo "$out" | grep -c '^VIOLATION') violation line(s)"
done
