// verus verus_table_lookup.rs --extern fnv=libfnv.rlib   => 4 verified, 0 errors (1.5 s)
// body of ClaimTable::lookup is verbatim src/table.rs; added: ensures, `it:` binder + invariant, one proof block.
#![feature(allocator_api)]
use vstd::prelude::*;
use vstd::std_specs::hash::*;
use vstd::std_specs::cmp::*;
use std::net::SocketAddr;
use std::collections::HashMap;
use std::marker::PhantomData;
use std::cmp::min;
use std::hash::{Hasher, BuildHasherDefault};
use fnv::FnvHasher;

verus! {

#[verifier::external_type_specification]
#[verifier::external_body]
pub struct ExSocketAddr(std::net::SocketAddr);
#[verifier::external_type_specification]
#[verifier::external_body]
pub struct ExFnvHasher(FnvHasher);
#[verifier::reject_recursive_types(H)]
#[verifier::external_type_specification]
#[verifier::external_body]
pub struct ExBuildHasherDefault<H>(std::hash::BuildHasherDefault<H>);

pub broadcast axiom fn axiom_fnv_valid()
    ensures #[trigger] builds_valid_hashers::<Hash>();
pub broadcast axiom fn axiom_address_key_model()
    ensures #[trigger] obeys_key_model::<Address>();

pub assume_specification<T: Ord> [std::cmp::min] (a: T, b: T) -> (r: T)
    ensures
        T::obeys_cmp_spec() ==> r == (if a.cmp_spec(&b) == core::cmp::Ordering::Greater { b } else { a }),
;
pub type Duration = u32;
pub type Time = i64;

pub trait TimeSource: Sync + Copy + Send + 'static {
    fn now() -> (t: Time)
        ensures 0 <= t < 0x1_0000_0000_0000;
}

type Hash = BuildHasherDefault<FnvHasher>;

#[derive(Eq, Clone, Copy)]
pub struct Address {
    pub data: [u8; 16],
    pub len: u8,
}
impl PartialEq for Address {
    #[verifier::external_body]
    fn eq(&self, rhs: &Self) -> bool {
        self.len == rhs.len && self.data[..self.len as usize] == rhs.data[..self.len as usize]
    }
}
#[verifier::external]
impl std::hash::Hash for Address {
    fn hash<H: Hasher>(&self, hasher: &mut H) { hasher.write(&self.data[..self.len as usize]) }
}

#[derive(Clone, Copy)]
pub struct Range {
    pub base: Address,
    pub prefix_len: u8,
}

pub uninterp spec fn range_contains(r: Range, a: Address) -> bool;

impl Range {
    #[verifier::external_body]
    pub fn matches(&self, addr: Address) -> (r: bool)
        ensures r == range_contains(*self, addr)
    { unimplemented!() }
}

struct CacheValue { peer: SocketAddr, timeout: Time }
struct ClaimEntry { peer: SocketAddr, claim: Range, timeout: Time }

struct ClaimTable<TS: TimeSource> {
    cache: HashMap<Address, CacheValue, Hash>,
    cache_timeout: Duration,
    claims: Vec<ClaimEntry>,
    claim_timeout: Duration,
    _dummy: PhantomData<TS>,
}

spec fn best_at(claims: Seq<ClaimEntry>, addr: Address, k: int) -> bool {
    0 <= k < claims.len() && range_contains(claims[k].claim, addr)
    && forall|j: int| 0 <= j < claims.len() && range_contains(claims[j].claim, addr)
        ==> claims[j].claim.prefix_len <= claims[k].claim.prefix_len
}

spec fn found_inv(found: Option<&ClaimEntry>, claims: Seq<ClaimEntry>, n: int, prefix_len: int, addr: Address) -> bool {
    match found {
        None => prefix_len == -1,
        Some(e) => exists|k: int| 0 <= k < n && k < claims.len() && *e == claims[k]
                    && prefix_len == claims[k].claim.prefix_len && range_contains(claims[k].claim, addr),
    }
}

impl<TS: TimeSource> ClaimTable<TS> {
    fn lookup(&mut self, addr: Address) -> (res: Option<SocketAddr>)
        ensures
            final(self).claims@ == old(self).claims@,
            old(self).cache@.contains_key(addr) ==> res == Some(old(self).cache@[addr].peer) && final(self).cache@ == old(self).cache@,
            !old(self).cache@.contains_key(addr) ==> (
                match res {
                    Some(p) => exists|k: int| best_at(old(self).claims@, addr, k) && old(self).claims@[k].peer == p
                        && final(self).cache@.contains_key(addr) && final(self).cache@[addr].peer == p
                        && final(self).cache@[addr].timeout <= old(self).claims@[k].timeout,
                    None => forall|j: int| 0 <= j < old(self).claims@.len() ==> !range_contains(old(self).claims@[j].claim, addr),
                }
            ),
    {
        broadcast use axiom_fnv_valid, axiom_address_key_model;
        // HOT PATH
        if let Some(entry) = self.cache.get(&addr) {
            return Some(entry.peer);
        }
        // COLD PATH
        let mut found = None;
        let mut prefix_len = -1;
        for entry in it: &self.claims
            invariant
                it.seq().len() == self.claims@.len(),
                forall|j: int| 0 <= j < it.seq().len() ==> *it.seq()[j] == self.claims@[j],
                self.claims@ == old(self).claims@,
                self.cache@ == old(self).cache@,
                -1 <= prefix_len <= 255,
                found_inv(found, self.claims@, it.index@, prefix_len as int, addr),
                forall|j: int| 0 <= j < it.index@ && range_contains(self.claims@[j].claim, addr) ==> self.claims@[j].claim.prefix_len <= prefix_len,
        {
            if entry.claim.prefix_len as isize > prefix_len && entry.claim.matches(addr) {
                found = Some(entry);
                prefix_len = entry.claim.prefix_len as isize;
            }
        }
        if let Some(entry) = found {
            self.cache.insert(
                addr,
                CacheValue { peer: entry.peer, timeout: min(TS::now() + self.cache_timeout as Time, entry.timeout) },
            );
            proof {
                let k = choose|k: int| 0 <= k < old(self).claims@.len() && *entry == old(self).claims@[k]
                    && prefix_len == old(self).claims@[k].claim.prefix_len && range_contains(old(self).claims@[k].claim, addr);
                assert(best_at(old(self).claims@, addr, k));
                assert(self.cache@.contains_key(addr));
                assert(self.cache@[addr].peer == entry.peer);
                assert(self.cache@[addr].timeout <= entry.timeout);
            }
            return Some(entry.peer);
        }
        None
    }
}

} // verus!
fn main() {}
