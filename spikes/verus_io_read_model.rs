#![allow(unused_imports)]
use vstd::prelude::*;
use std::io::{self, Read, Take};
use byteorder::{NetworkEndian, ReadBytesExt};

verus! {

#[verifier::external_type_specification]
#[verifier::external_body]
pub struct ExIoError(std::io::Error);

#[verifier::external_type_specification]
#[verifier::external_body]
pub struct ExNE(byteorder::BigEndian);

#[verifier::external_type_specification]
#[verifier::external_body]
#[verifier::reject_recursive_types(R)]
pub struct ExTake<R>(std::io::Take<R>);

pub uninterp spec fn take_inner<R>(t: Take<R>) -> R;
pub uninterp spec fn take_limit<R>(t: Take<R>) -> u64;

#[verifier::external_trait_specification]
#[verifier::external_trait_extension(ReadSpec via ReadSpecImpl)]
pub trait ExRead {
    type ExternalTraitSpecificationFor: std::io::Read;

    spec fn rest(&self) -> Seq<u8>;
    spec fn base(&self) -> Seq<u8>;
    spec fn budget(&self) -> int;

    fn read_exact(&mut self, buf: &mut [u8]) -> (r: Result<(), io::Error>)
        ensures
            final(buf)@.len() == old(buf)@.len(),
            r is Ok ==> old(self).rest().len() >= old(buf)@.len()
                && final(buf)@ == old(self).rest().subrange(0, old(buf)@.len() as int)
                && final(self).rest() == old(self).rest().skip(old(buf)@.len() as int)
                && final(self).base() == old(self).base().skip(old(buf)@.len() as int)
                && final(self).budget() == old(self).budget() - old(buf)@.len(),
            r is Err ==> old(self).rest().len() < old(buf)@.len(),
    ;

    fn take(self, limit: u64) -> (t: Take<Self>) where Self: Sized
        ensures take_inner(t) == self, take_limit(t) == limit;
}


impl<T: Read> ReadSpecImpl for Take<T> {
    open spec fn rest(&self) -> Seq<u8> {
        let inner = take_inner(*self).rest();
        if take_limit(*self) as int >= inner.len() { inner } else { inner.subrange(0, take_limit(*self) as int) }
    }
    open spec fn base(&self) -> Seq<u8> { take_inner(*self).rest() }
    open spec fn budget(&self) -> int { take_limit(*self) as int }
}

pub assume_specification<R> [Take::<R>::limit] (t: &Take<R>) -> (r: u64)
    ensures r == take_limit(*t);


#[verifier::external_body]
fn rd_u8<R: Read>(r: &mut R) -> (res: Result<u8, io::Error>)
    ensures
        res is Ok ==> ReadSpec::rest(old(r)).len() >= 1 && res.unwrap() == ReadSpec::rest(old(r))[0]
            && ReadSpec::rest(final(r)) == ReadSpec::rest(old(r)).skip(1) && ReadSpec::base(final(r)) == ReadSpec::base(old(r)).skip(1) && ReadSpec::budget(final(r)) == ReadSpec::budget(old(r)) - 1,
        res is Err ==> ReadSpec::rest(old(r)).len() < 1,
{ r.read_u8() }

#[verifier::external_body]
fn rd_u16<R: Read>(r: &mut R) -> (res: Result<u16, io::Error>)
    ensures
        res is Ok ==> ReadSpec::rest(old(r)).len() >= 2
            && res.unwrap() == ReadSpec::rest(old(r))[0] as u16 * 256 + ReadSpec::rest(old(r))[1] as u16
            && ReadSpec::rest(final(r)) == ReadSpec::rest(old(r)).skip(2) && ReadSpec::base(final(r)) == ReadSpec::base(old(r)).skip(2) && ReadSpec::budget(final(r)) == ReadSpec::budget(old(r)) - 2,
        res is Err ==> ReadSpec::rest(old(r)).len() < 2,
{ r.read_u16::<NetworkEndian>() }

pub assume_specification<R> [Take::<R>::into_inner] (t: Take<R>) -> (r: R)
    ensures r == take_inner(t);

fn two<R: Read>(r: &mut Take<R>) -> (res: Result<u16, io::Error>)
    ensures res is Ok ==> ReadSpec::rest(&*old(r)).len() >= 3,
{
    let a = rd_u8(r)?;
    let b = rd_u16(r)?;
    Ok(b)
}


fn parts<R: Read>(mut r: R) -> (res: Result<(u8, R), io::Error>)
    ensures res is Ok ==> ReadSpec::rest(&r).len() >= 3 && ReadSpec::rest(&res.unwrap().1) == ReadSpec::rest(&r).skip(3)
{
    let ghost r0 = ReadSpec::rest(&r);
    let n = rd_u16(&mut r)?;
    let mut rp = r.take(n as u64);
    let x = rd_u8(&mut rp)?;
    let l = rp.limit();
    assert(l == n - 1);
    r = rp.into_inner();
    Ok((x, r))
}
}
fn main(){}