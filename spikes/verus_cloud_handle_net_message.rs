// verus verus_cloud_handle_net_message.rs --extern fnv=libfnv.rlib => 1 verified, 0 errors
// GenericCloud::handle_net_message verbatim (R1: debug!/info!/call_hook dropped), opaque environment;
// proves: the interface (device) is untouched unless the sender is pending/peer or the datagram is a handshake message.
#![feature(allocator_api)]
use vstd::prelude::*;
use vstd::std_specs::hash::*;
use std::net::SocketAddr;
use std::collections::HashMap;
use std::marker::PhantomData;
use std::hash::BuildHasherDefault;
use fnv::FnvHasher;

verus! {

#[verifier::external_type_specification]
#[verifier::external_body]
pub struct ExSocketAddr(std::net::SocketAddr);
#[verifier::external_type_specification]
#[verifier::external_body]
pub struct ExFnvHasher(FnvHasher);
#[verifier::reject_recursive_types(H)]
#[verifier::external_type_specification]
#[verifier::external_body]
pub struct ExBuildHasherDefault<H>(std::hash::BuildHasherDefault<H>);

pub broadcast axiom fn axiom_fnv_valid()
    ensures #[trigger] builds_valid_hashers::<Hash>();
pub broadcast axiom fn axiom_sockaddr_key_model()
    ensures #[trigger] obeys_key_model::<SocketAddr>();

pub assume_specification<'a, K: Eq + std::hash::Hash, V, S: std::hash::BuildHasher, A: std::alloc::Allocator, Q: ?Sized + std::hash::Hash + Eq> [HashMap::<K, V, S, A>::get_mut::<Q>] (m: &'a mut HashMap<K, V, S, A>, k: &Q) -> (r: Option<&'a mut V>)
    where K: std::borrow::Borrow<Q>
    ensures
        obeys_key_model::<K>() && builds_valid_hashers::<S>() ==> {
            &&& final(m)@.dom() == old(m)@.dom()
            &&& r.is_some() == contains_borrowed_key(old(m)@, k)
            &&& (r.is_none() ==> final(m)@ == old(m)@)
        },
;
pub type Hash = BuildHasherDefault<FnvHasher>;
pub type Time = i64;

#[verifier::external_body] pub struct MsgBuffer { _p: () }
#[verifier::external_body] pub struct Error { _p: () }
#[verifier::external_body] pub struct NodeInfo { _p: () }
#[verifier::external_body] pub struct TrafficStats { _p: () }
#[verifier::external_body] pub struct Crypto { _p: () }
#[verifier::external_body] pub struct PeerCryptoNI { _p: () }
#[verifier::reject_recursive_types(TS)] #[verifier::external_body] pub struct ClaimTable<TS> { _p: PhantomData<TS> }

pub enum MessageResult { Message(u8), Initialized(NodeInfo), InitializedWithReply(NodeInfo), Reply, None }

pub struct PeerData {
    crypto: PeerCryptoNI,
}

pub trait TimeSource: Sync + Copy + Send + 'static { fn now() -> Time; }
pub trait Protocol: Sized { }
pub trait Device { }
pub trait Socket: Sized { }

pub uninterp spec fn mapped_addr_spec(a: SocketAddr) -> SocketAddr;
pub uninterp spec fn is_init_spec(b: &MsgBuffer) -> bool;
#[verifier::external_body] pub fn mapped_addr(addr: SocketAddr) -> (r: SocketAddr) ensures r == mapped_addr_spec(addr) { unimplemented!() }
pub uninterp spec fn is_init_bytes(b: &[u8]) -> bool;
#[verifier::external_body] pub fn is_init_message(msg: &[u8]) -> (r: bool) ensures r == is_init_bytes(msg) { unimplemented!() }

impl MsgBuffer {
    pub uninterp spec fn msg_spec(&self) -> &[u8];
    #[verifier::external_body] pub fn message(&self) -> (r: &[u8]) ensures r == self.msg_spec() { unimplemented!() }
    #[verifier::external_body] pub fn len(&self) -> usize { unimplemented!() }
}
impl TrafficStats {
    #[verifier::external_body] pub fn count_invalid_protocol(&mut self, bytes: usize) { unimplemented!() }
}
impl PeerCryptoNI {
    #[verifier::external_body] pub fn handle_message(&mut self, buffer: &mut MsgBuffer) -> Result<MessageResult, Error> { unimplemented!() }
    #[verifier::external_body] pub fn has_init(&self) -> bool { unimplemented!() }
}
impl Crypto {
    #[verifier::external_body] pub fn peer_instance(&self, payload: NodeInfo) -> PeerCryptoNI { unimplemented!() }
}

#[verifier::reject_recursive_types(TS)]
pub struct GenericCloud<D: Device, P: Protocol, S: Socket, TS: TimeSource> {
    peers: HashMap<SocketAddr, PeerData, Hash>,
    pending_inits: HashMap<SocketAddr, PeerCryptoNI, Hash>,
    table: ClaimTable<TS>,
    socket: S,
    device: D,
    crypto: Crypto,
    traffic: TrafficStats,
    _dummy_p: PhantomData<P>,
    _dummy_ts: PhantomData<TS>,
}

impl<D: Device, P: Protocol, S: Socket, TS: TimeSource> GenericCloud<D, P, S, TS> {
    #[verifier::external_body]
    fn create_node_info(&self) -> NodeInfo { unimplemented!() }

    #[verifier::external_body]
    fn handle_message(&mut self, src: SocketAddr, msg_result: MessageResult, data: &mut MsgBuffer) -> Result<(), Error> { unimplemented!() }

    pub closed spec fn known(&self, a: SocketAddr) -> bool {
        self.pending_inits@.contains_key(a) || self.peers@.contains_key(a)
    }

    fn handle_net_message(&mut self, src: SocketAddr, data: &mut MsgBuffer) -> (r: Result<(), Error>)
        ensures
            final(self).device == old(self).device || old(self).known(mapped_addr_spec(src)) || is_init_bytes(old(data).msg_spec()),
    {
        broadcast use axiom_fnv_valid, axiom_sockaddr_key_model;
        // HOT PATH
        let src = mapped_addr(src);
        let msg_result = if let Some(init) = self.pending_inits.get_mut(&src) {
            // COLD PATH
            init.handle_message(data)
        } else if is_init_message(data.message()) {
            // COLD PATH
            let mut result = None;
            if let Some(peer) = self.peers.get_mut(&src) {
                if peer.crypto.has_init() {
                    result = Some(peer.crypto.handle_message(data))
                }
            }
            if let Some(result) = result {
                result
            } else {
                let mut init = self.crypto.peer_instance(self.create_node_info());
                let msg_result = init.handle_message(data);
                match msg_result {
                    Ok(res) => {
                        self.pending_inits.insert(src, init);
                        Ok(res)
                    }
                    Err(err) => {
                        self.traffic.count_invalid_protocol(data.len());
                        return Err(err);
                    }
                }
            }
        } else if let Some(peer) = self.peers.get_mut(&src) {
            // HOT PATH
            peer.crypto.handle_message(data)
        } else {
            // COLD PATH
            self.traffic.count_invalid_protocol(data.len());
            return Ok(());
        };
        // HOT PATH
        match msg_result {
            Ok(val) => {
                // HOT PATH
                self.handle_message(src, val, data)
            }
            Err(err) => {
                // COLD PATH
                self.traffic.count_invalid_protocol(data.len());
                Err(err)
            }
        }
    }
}

} // verus!
fn main() {}
