// verus verus_peercrypto_precondition.rs => 1 error: "precondition not satisfied" at `self.get_core()?.decrypt(buffer)`
// i.e. the C08 finding F1 surfaces as the failed call-site obligation of CryptoCore::decrypt's `requires len >= 24`.
use vstd::prelude::*;
verus! {

#[verifier::external_body] pub struct Error { _p: () }
#[verifier::external_body] pub struct CryptoCore { _p: () }
#[verifier::external_body] pub struct RotationState { _p: () }
#[verifier::external_body] #[verifier::reject_recursive_types(P)] pub struct InitState<P> { _p: core::marker::PhantomData<P> }
pub type NodeId = [u8; 16];
pub const TAG_LEN: usize = 16;
pub const EXTRA_LEN: usize = 8;

#[verifier::external_body]
pub fn err_state(s: &'static str) -> Error { unimplemented!() }

pub trait Payload: Sized { }

pub struct MsgBuffer {
    space_before: usize,
    buffer: [u8; 65535],
    start: usize,
    end: usize,
}

impl MsgBuffer {
    pub closed spec fn wf(&self) -> bool { self.space_before <= self.start <= self.end <= 65535 }
    pub closed spec fn slen(&self) -> int { self.end - self.start }
    pub closed spec fn first(&self) -> u8 { self.buffer@[self.start as int] }

    // verbatim src/util.rs
    pub fn take_prefix(&mut self) -> (byte: u8)
        requires old(self).wf(), old(self).slen() > 0
        ensures final(self).wf(), final(self).slen() == old(self).slen() - 1, byte == old(self).first()
    {
        let byte = self.buffer[self.start];
        self.start += 1;
        byte
    }

    pub fn is_empty(&self) -> (r: bool)
        requires self.wf()
        ensures r == (self.slen() == 0)
    {
        self.start == self.end
    }
}

impl CryptoCore {
    // env: contract discharged by the Kani harness on the real CryptoCore::decrypt
    #[verifier::external_body]
    pub fn decrypt(&mut self, buffer: &mut MsgBuffer) -> (r: Result<(), Error>)
        requires old(buffer).wf(), old(buffer).slen() >= EXTRA_LEN + TAG_LEN
        ensures final(buffer).wf(), final(buffer).slen() == old(buffer).slen() - EXTRA_LEN - TAG_LEN
    { unimplemented!() }
}

#[verifier::reject_recursive_types(P)]
pub struct PeerCrypto<P: Payload> {
    node_id: NodeId,
    init: Option<InitState<P>>,
    rotation: Option<RotationState>,
    unencrypted: bool,
    core: Option<CryptoCore>,
    rotate_counter: usize,
}

impl<P: Payload> PeerCrypto<P> {
    // verbatim src/crypto/common.rs (Error constructor replaced by env fn in this hand-made spike only)
    fn get_core(&mut self) -> Result<&mut CryptoCore, Error> {
        if let Some(core) = &mut self.core {
            Ok(core)
        } else {
            Err(err_state("Crypto core not ready yet"))
        }
    }

    fn decrypt_message(&mut self, buffer: &mut MsgBuffer) -> (r: Result<(), Error>)
        requires old(buffer).wf()
        ensures final(buffer).wf()
    {
        // HOT PATH
        if self.unencrypted {
            return Ok(());
        }
        self.get_core()?.decrypt(buffer)
    }
}

} // verus!
fn main() {}
