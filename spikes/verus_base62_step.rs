use vstd::prelude::*;
verus! {

pub open spec fn p62(i: nat) -> nat decreases i { if i == 0 { 1 } else { 62 * p62((i - 1) as nat) } }

pub open spec fn val62(s: Seq<u8>) -> nat decreases s.len() {
    if s.len() == 0 { 0 } else { val62(s.drop_last()) + (s.last() as nat) * p62((s.len() - 1) as nat) }
}

proof fn lemma_step(vn: nat, vo: nat, d: nat, o: nat, p: nat, m: nat)
    requires vn + d * p == m + 16 * vo,
    ensures vn + ((d + 16 * o) % 62) * p + ((d + 16 * o) / 62) * (62 * p) == m + 16 * (vo + o * p),
{
    let t = d + 16 * o;
    assert(t == (t % 62) + 62 * (t / 62)) by { vstd::arithmetic::div_mod::lemma_fundamental_div_mod(t as int, 62); }
    assert((t % 62) * p + (t / 62) * (62 * p) == t * p) by (nonlinear_arith)
        requires t == (t % 62) + 62 * (t / 62);
    assert(t * p == d * p + 16 * (o * p)) by (nonlinear_arith) requires t == d + 16 * o;
}

fn base62_add_mult_16(buf: &mut [u8], mut buflen: usize, m: u8) -> (r: usize)
    requires
        buflen < old(buf)@.len(),
        forall|j: int| 0 <= j < buflen ==> old(buf)@[j] < 62,
        m < 16,
    ensures
        buflen <= r <= buflen + 1,
        final(buf)@.len() == old(buf)@.len(),
        forall|j: int| 0 <= j < r ==> final(buf)@[j] < 62,
        val62(final(buf)@.subrange(0, r as int)) == 16 * val62(old(buf)@.subrange(0, buflen as int)) + m,
{
    let mut d: usize = m as usize;
    let ghost mut newv: Seq<u8> = Seq::empty();
    proof {
        assert(old(buf)@.subrange(0, 0) =~= Seq::<u8>::empty());
        assert(val62(Seq::<u8>::empty()) == 0);
        assert(p62(0) == 1);
        assert(d * p62(0) == d) by (nonlinear_arith) requires p62(0) == 1;
    }
    for item in it: buf.iter_mut().take(buflen)
        invariant
            it.seq().len() == buflen,
            forall|j: int| 0 <= j < buflen ==> *it.seq()[j] == old(buf)@[j],
            newv.len() == it.index@,
            forall|j: int| 0 <= j < it.index@ ==> *final(it.seq()[j]) == newv[j] && newv[j] < 62,
            forall|j: int| 0 <= j < newv.len() ==> newv[j] < 62,
            d < 16,
            m < 16,
            forall|j: int| 0 <= j < buflen ==> old(buf)@[j] < 62,
            val62(newv) + d * p62(it.index@ as nat) == m + 16 * val62(old(buf)@.subrange(0, it.index@)),
    {
        let ghost d0 = d;
        assert(*item == old(buf)@[it.index@]);
        d += *item as usize * 16;
        *item = (d % 62) as u8;
        d /= 62;
        proof {
            assert(0 <= it.index@ < buflen);
            assert(old(buf)@[it.index@] < 62);
            let oo: int = old(buf)@[it.index@] as int;
            let dd: int = d0 as int;
            assert((dd + 16 * oo) / 62 < 16) by (nonlinear_arith) requires 0 <= dd < 16, 0 <= oo < 62;
            let i = it.index@;
            let o = old(buf)@[i];
            lemma_step(val62(newv), val62(old(buf)@.subrange(0, i)), d0 as nat, o as nat, p62(i as nat), m as nat);
            let nv = newv.push(((d0 + 16 * o) % 62) as u8);
            assert(nv.drop_last() == newv);
            assert(old(buf)@.subrange(0, i + 1).drop_last() == old(buf)@.subrange(0, i));
            newv = nv;
        }
    }
    assert(buf@.len() == old(buf)@.len());
    assert(forall|j: int| 0 <= j < buflen ==> buf@[j] == newv[j]);
    assert!(d < 62);
    proof {
        assert(buf@.subrange(0, buflen as int) =~= newv);
    }
    let ghost pre = buf@;
    assert forall|j: int| 0 <= j < buflen implies buf@[j] < 62 by { assert(buf@[j] == newv[j]); assert(newv[j] < 62); }
    if d > 0 {
        buf[buflen] = d as u8;
        buflen += 1;
        proof {
            assert(buf@.subrange(0, buflen as int).drop_last() =~= newv);
            assert(buf@.subrange(0, buflen as int).last() == d as u8);
            assert(forall|j: int| 0 <= j < buflen - 1 ==> buf@[j] == newv[j]);
        }
    }
    buflen
}

} // verus!
fn main() {}
