// verus verus_cloud_frame.rs --extern fnv=libfnv.rlib => 2 verified, 0 errors
// GenericCloud::handle_payload_from verbatim (debug!/error! dropped), everything else opaque: frame conditions.
#![feature(allocator_api)]
use vstd::prelude::*;
use std::net::SocketAddr;
use std::collections::HashMap;
use std::marker::PhantomData;
use std::hash::BuildHasherDefault;
use fnv::FnvHasher;

verus! {

#[verifier::external_type_specification]
#[verifier::external_body]
pub struct ExSocketAddr(std::net::SocketAddr);
#[verifier::external_type_specification]
#[verifier::external_body]
pub struct ExFnvHasher(FnvHasher);
#[verifier::reject_recursive_types(H)]
#[verifier::external_type_specification]
#[verifier::external_body]
pub struct ExBuildHasherDefault<H>(std::hash::BuildHasherDefault<H>);

pub type Hash = BuildHasherDefault<FnvHasher>;
pub type Time = i64;

#[verifier::external_body] pub struct MsgBuffer { _p: () }
#[verifier::external_body] #[derive(Clone, Copy)] pub struct Address { _p: () }
#[verifier::external_body] pub struct Error { _p: () }
#[verifier::external_body] pub struct TrafficStats { _p: () }
#[verifier::external_body] pub struct Crypto { _p: () }
#[verifier::external_body] pub struct PeerCryptoNI { _p: () }
#[verifier::reject_recursive_types(TS)] #[verifier::external_body] pub struct ClaimTable<TS> { _p: PhantomData<TS> }
#[verifier::external_body] pub struct PeerData { _p: () }

pub trait TimeSource: Sync + Copy + Send + 'static { fn now() -> Time; }
pub trait Protocol: Sized { fn parse(d: &[u8]) -> Result<(Address, Address), Error>; }
pub trait Device { fn write(&mut self, b: &mut MsgBuffer) -> Result<(), Error>; }
pub trait Socket: Sized { }

impl MsgBuffer {
    #[verifier::external_body] pub fn message(&self) -> &[u8] { unimplemented!() }
    #[verifier::external_body] pub fn len(&self) -> usize { unimplemented!() }
}
impl TrafficStats {
    #[verifier::external_body] pub fn count_in_payload(&mut self, remote: Address, local: Address, bytes: usize) { unimplemented!() }
}
impl<TS: TimeSource> ClaimTable<TS> {
    #[verifier::external_body] pub fn cache(&mut self, addr: Address, peer: SocketAddr) { unimplemented!() }
}

#[verifier::reject_recursive_types(TS)]
pub struct GenericCloud<D: Device, P: Protocol, S: Socket, TS: TimeSource> {
    learning: bool,
    broadcast: bool,
    peers: HashMap<SocketAddr, PeerData, Hash>,
    pending_inits: HashMap<SocketAddr, PeerCryptoNI, Hash>,
    table: ClaimTable<TS>,
    socket: S,
    device: D,
    crypto: Crypto,
    traffic: TrafficStats,
    _dummy_p: PhantomData<P>,
    _dummy_ts: PhantomData<TS>,
}

impl<D: Device, P: Protocol, S: Socket, TS: TimeSource> GenericCloud<D, P, S, TS> {
    fn handle_payload_from(&mut self, peer: SocketAddr, data: &mut MsgBuffer) -> (r: Result<(), Error>)
        ensures
            final(self).socket == old(self).socket,
            final(self).peers == old(self).peers,
            final(self).pending_inits == old(self).pending_inits,
            !old(self).learning ==> final(self).table == old(self).table,
    {
        // HOT PATH
        let (src, dst) = P::parse(data.message())?;
        let len = data.len();
        self.traffic.count_in_payload(src, dst, len);
        if let Err(e) = self.device.write(data) {
            return Err(e);
        }
        if self.learning {
            // Learn single address
            self.table.cache(src, peer);
        }
        Ok(())
    }
}

} // verus!
fn main() {}
