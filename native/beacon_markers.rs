// Native search driver for beacon extraction from arbitrary text (property C17, obligation beacon::BeaconSerializer::decode): "Arbitrary
// text never makes beacon extraction panic" over host texts with PARTIAL and OVERLAPPING begin / end markers.
// Bound: passwords "pw0" .. "pw3999"; for each, texts assembled from the two markers, every proper prefix / suffix of them, the overlap
// join (begin followed by the rest of end, where a suffix of begin is a prefix of end), a genuine beacon and random alphanumerics - all
// concatenations of up to 3 such pieces (about 2 000 texts per password where the markers overlap, 300 otherwise).
use super::*;
use std::panic;

fn ser(pw: &str) -> BeaconSerializer<MockTimeSource> { BeaconSerializer::<MockTimeSource>::new(pw.as_bytes()) }

#[test]
fn marker_search_never_panics() {
    let hook = panic::take_hook();
    panic::set_hook(Box::new(|_| {}));
    MockTimeSource::set_time(2000 * 3600);
    let mut failing = 0usize;
    let peers = vec![SocketAddr::from_str("1.2.3.4:5678").unwrap(), SocketAddr::from_str("6.6.6.6:53").unwrap()];
    for n in 0..4000u32 {
        let pw = format!("pw{}", n);
        let s = ser(&pw);
        let (b, e) = (s.begin(), s.end());
        let overlap = (1..5).rev().find(|k| b[5 - k..] == e[..*k]);
        let mut pieces: Vec<String> = vec![b.clone(), e.clone(), "x7Qa".to_string(), String::new()];
        if let Some(k) = overlap { pieces.push(format!("{}{}", b, &e[k..])); }
        if overlap.is_some() || n % 13 == 0 {
            for k in 1..5 { pieces.push(b[..k].to_string()); pieces.push(b[k..].to_string()); pieces.push(e[..k].to_string()); pieces.push(e[k..].to_string()); }
            pieces.push(s.encode(&peers));
        }
        let np = pieces.len();
        let limit = if overlap.is_some() { 3 } else { 2 };
        let mut idx = vec![0usize; limit];
        'outer: loop {
            let text: String = idx.iter().map(|i| pieces[*i].as_str()).collect();
            let s2 = ser(&pw);
            let t2 = text.clone();
            if panic::catch_unwind(move || s2.decode(&t2, None).len()).is_err() {
                failing += 1;
                if failing <= 3 { println!("FAILING-INPUT: beacon password {:?} (begin marker {:?}, end marker {:?}{}): extracting beacons from the text {:?} panics", pw, b, e, match overlap { Some(k) => format!(", the last {} character(s) of begin are the first of end", k), None => String::new() }, text); }
                break 'outer;
            }
            let mut j = 0;
            loop { if j == limit { break 'outer; } idx[j] += 1; if idx[j] < np { break; } idx[j] = 0; j += 1; }
        }
    }
    panic::set_hook(hook);
    assert_eq!(failing, 0);
}
