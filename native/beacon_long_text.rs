// Native search driver for obligation beacon::BeaconSerializer::mask_with_keystream (property C17: arbitrary text never
// makes beacon extraction panic): texts with a long alphanumeric body between the begin and end markers.
use super::*;
use std::panic;

#[test]
fn long_beacon_bodies_do_not_panic() {
    MockTimeSource::set_time(2000 * 3600);
    let ser = BeaconSerializer::<MockTimeSource>::new(b"mysecretkey");
    let mut failing = 0;
    panic::set_hook(Box::new(|_| {}));
    for n in [10usize, 100, 1000, 5000, 5600, 6000, 20000] {
        for ch in ['z', 'A', '7'] {
            let text = format!("{}{}{}", ser.begin(), std::iter::repeat(ch).take(n).collect::<String>(), ser.end());
            let s2 = ser.clone();
            let r = panic::catch_unwind(move || { s2.decode(&text, None).len() });
            if r.is_err() {
                failing += 1;
                if failing <= 3 { println!("FAILING-INPUT: decode() panics on a text with {} times '{}' between the beacon markers", n, ch); }
            }
        }
    }
    let _ = panic::take_hook();
    assert_eq!(failing, 0);
}
