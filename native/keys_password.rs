// Native search driver for password-derived keys (property C18, obligations base62::Crypto::{keypair_from_password, generate_keypair}):
// the printed pair is deterministic, is PBKDF2-HMAC-SHA256 (fixed salt, 4096 rounds) of the WHOLE password, differs for different
// passwords (also long ones with a common prefix), and is the pair a node configured with that password uses.
use super::*;
use crate::util::to_base62;

#[test]
fn password_keys_are_deterministic_and_use_the_whole_password() {
    let mut failing = 0;
    let mut pws: Vec<String> = vec!["".into(), "a".into(), "mysecretkey".into(), "pässwörd ✓ 密码".into()];
    for &len in [31usize, 32, 33, 63, 64, 65, 100, 125, 126, 128, 129, 255, 256, 1024].iter() {
        let base: String = (0..len).map(|i| (b'a' + (i % 26) as u8) as char).collect();
        let mut other = base.clone(); other.pop(); other.push('#');
        let mut ext = base.clone(); ext.push('x');
        pws.push(base); pws.push(other); pws.push(ext);
    }
    let mut seen: Vec<(String, String)> = vec![];
    for pw in pws.iter() {
        let (priv1, pub1) = Crypto::generate_keypair(Some(pw));
        let (priv2, pub2) = Crypto::generate_keypair(Some(pw));
        let short: String = pw.chars().take(24).collect();
        if (priv1.clone(), pub1.clone()) != (priv2, pub2) {
            failing += 1; if failing <= 3 { println!("FAILING-INPUT: password {:?}.. ({} bytes): two derivations give different key pairs", short, pw.len()); }
        }
        let mut seed = [0u8; 32];
        pbkdf2::derive(pbkdf2::PBKDF2_HMAC_SHA256, NonZeroU32::new(4096).unwrap(), SALT, pw.as_bytes(), &mut seed);
        if priv1 != to_base62(&seed) {
            failing += 1; if failing <= 3 { println!("FAILING-INPUT: password {:?}.. ({} bytes): the printed private key is not PBKDF2 of the whole password", short, pw.len()); }
        }
        let kp = Crypto::keypair_from_password(pw);
        if to_base62(kp.public_key().as_ref()) != pub1 {
            failing += 1; if failing <= 3 { println!("FAILING-INPUT: password {:?}.. ({} bytes): a node configured with the password uses another key pair than `genkey --password` prints", short, pw.len()); }
        }
        match Crypto::parse_private_key(&priv1) {
            Ok(k) if to_base62(k.public_key().as_ref()) == pub1 => {}
            _ => { failing += 1; if failing <= 3 { println!("FAILING-INPUT: password {:?}.. ({} bytes): the printed private key does not yield the printed public key", short, pw.len()); } }
        }
        if let Some((other, _)) = seen.iter().find(|(_, p)| *p == pub1) {
            let o: String = other.chars().take(24).collect();
            failing += 1; if failing <= 3 { println!("FAILING-INPUT: the different passwords {:?}.. ({} bytes) and {:?}.. ({} bytes) derive the same key pair", o, other.len(), short, pw.len()); }
        }
        seen.push((pw.clone(), pub1));
    }
    assert_eq!(failing, 0);
}
