// Native search driver at node level for "a node never peers with itself ... addresses that peers list under the node's own identity
// are adopted as its own and not dialled" (property C14, obligations peers::GenericCloud::{connect_sock, adopt_own_addresses_block} and
// initstage::InitState::handle_init): real nodes on a small network with ADDRESS TRANSLATION (attached below src/tests/common.rs).
// Node A sits behind a NAT: its datagrams arrive with source `a_pub`, datagrams to `a_pub` reach A - also A's own (hair-pinning).
// Bound: 2 and 3 nodes, NAT alias with / without hair-pinning, self-dial before and after the alias is known, 400 s of housekeeping.
//   1. after one peer-exchange interval B has listed A under A's node id with the alias: A has adopted the alias as own address;
//   2. from then on A does not dial the alias (connect(alias), reconnect entries, peer lists): no datagram of A goes to it;
//   3. at no time is A a peer of itself (is_connected to its socket address or its alias), whatever is hair-pinned back to it -
//      also when A dials its alias BEFORE knowing that it is its own.
use super::*;
use std::collections::VecDeque;

type Node = GenericCloud<MockDevice, Frame, MockSocket, MockTimeSource>;

fn addr(port: u16) -> SocketAddr { format!("[::]:{}", port).parse::<SocketAddr>().unwrap() }

struct Net { nodes: Vec<(SocketAddr, Node)>, a_pub: SocketAddr, hairpin: bool, queue: VecDeque<(SocketAddr, SocketAddr, Vec<u8>)>, a_sent_to: Vec<SocketAddr> }

impl Net {
    fn new(n: usize, hairpin: bool) -> Self {
        MockTimeSource::set_time(0);
        MockSocket::set_nat(false);
        let nodes = (0..n).map(|i| {
            let a = addr(1 + i as u16);
            let mut config = Config { listen: format!("{}", a), ..Config::default() };
            config.crypto.password = Some("test123".to_string());
            (a, Node::new(&config, MockSocket::new(a), MockDevice::new(), None, None))
        }).collect();
        Net { nodes, a_pub: addr(101), hairpin, queue: VecDeque::new(), a_sent_to: vec![] }
    }
    fn collect(&mut self) {
        for i in 0..self.nodes.len() {
            let from = self.nodes[i].0;
            while let Some((dst, data)) = self.nodes[i].1.socket().pop_outbound() {
                if i == 0 { self.a_sent_to.push(dst); }
                self.queue.push_back((from, dst, data));
            }
        }
    }
    fn run(&mut self) {
        self.collect();
        let mut budget = 20000;
        while let Some((src, dst, data)) = self.queue.pop_front() {
            budget -= 1;
            if budget == 0 { break; }
            let a_addr = self.nodes[0].0;
            let seen_src = if src == a_addr { self.a_pub } else { src };
            let idx = if dst == self.a_pub { if src == a_addr && !self.hairpin { continue; } 0 } else {
                match self.nodes.iter().position(|n| n.0 == dst) { Some(i) => i, None => continue }
            };
            if self.nodes[idx].1.socket().put_inbound(seen_src, data) { self.nodes[idx].1.trigger_socket_event(); }
            self.collect();
        }
    }
    fn tick(&mut self) {
        MockTimeSource::set_time(MockTimeSource::now() + 1);
        for n in self.nodes.iter_mut() { n.1.trigger_housekeep(); }
        self.run();
    }
    fn a(&mut self) -> &mut Node { &mut self.nodes[0].1 }
    fn a_is_own_peer(&self) -> bool { self.nodes[0].1.is_connected(&self.nodes[0].0) || self.nodes[0].1.is_connected(&self.a_pub) }
}

fn fail(failing: &mut usize, msg: String) {
    *failing += 1;
    if *failing <= 3 { println!("FAILING-INPUT: {}", msg); }
}

#[test]
fn own_addresses_are_adopted_not_dialled_and_never_a_peer() {
    let mut failing = 0usize;
    for &n in [2usize, 3].iter() { for &hairpin in [true, false].iter() { for &early_self_dial in [false, true].iter() {
        let what = format!("{} nodes, A behind a NAT (seen as [::]:101){}{}", n, if hairpin { ", hair-pinning" } else { "" }, if early_self_dial { ", A dials its alias before anybody told it" } else { "" });
        let mut net = Net::new(n, hairpin);
        let a_pub = net.a_pub;
        if early_self_dial {
            let _ = net.a().connect(a_pub);
            net.run();
            for _ in 0..5 { net.tick(); }
            if net.a_is_own_peer() { fail(&mut failing, format!("{}: A has become a peer of ITSELF after dialling its own public address", what)); continue; }
        }
        let b_addr = net.nodes[1].0;
        let _ = net.a().connect(b_addr);
        net.run();
        if n == 3 { let c = net.nodes[2].0; let _ = net.nodes[1].1.connect(c); net.run(); }
        if !net.nodes[0].1.is_connected(&b_addr) || !net.nodes[1].1.is_connected(&a_pub) { fail(&mut failing, format!("{}: A and B do not connect", what)); continue; }
        // one peer-exchange interval (default 90 s) + margin, below the own-address reset interval (300 s)
        let mut bad = false;
        for _ in 0..120 {
            net.tick();
            if net.a_is_own_peer() { fail(&mut failing, format!("{}: at t={} A is a peer of ITSELF", what, MockTimeSource::now())); bad = true; break; }
        }
        if bad { continue; }
        if !net.nodes[0].1.own_addresses().contains(&a_pub) {
            fail(&mut failing, format!("{}: after {} s B has listed A under A's own node id with the alias, but A has not adopted it (own addresses {:?})", what, MockTimeSource::now(), net.nodes[0].1.own_addresses()));
            continue;
        }
        // from now on the alias is not dialled
        net.a_sent_to.clear();
        let _ = net.a().connect(a_pub);
        net.run();
        for _ in 0..30 { net.tick(); }
        if net.a_sent_to.contains(&a_pub) { fail(&mut failing, format!("{}: A dials its own alias although it is an own address ({} datagram(s))", what, net.a_sent_to.iter().filter(|x| **x == a_pub).count())); }
        if net.a_is_own_peer() { fail(&mut failing, format!("{}: A is a peer of ITSELF after connect(alias)", what)); }
    } } }
    assert_eq!(failing, 0);
}
