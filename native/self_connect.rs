// Native search driver for "a node never peers with itself" (property C14, obligations codec::InitState::check_salted_node_id_hash /
// salted_hash_block): two handshake objects of the SAME node (same node id and keys, independent random salts - what happens when a node
// dials one of its own addresses that it does not know to be its own): the responder must refuse the ping with "Connected to self";
// objects of DIFFERENT nodes must not be refused. Many node ids and salts.
use super::*;

#[test]
fn a_node_recognises_itself_under_any_salt() {
    let rng = SystemRandom::new();
    let pkcs8_bytes = Ed25519KeyPair::generate_pkcs8(&rng).unwrap();
    let key_pair = Arc::new(Ed25519KeyPair::from_pkcs8(pkcs8_bytes.as_ref()).unwrap());
    let mut public_key = [0; ED25519_PUBLIC_KEY_LEN];
    public_key.clone_from_slice(key_pair.public_key().as_ref());
    let trusted: Arc<[Ed25519PublicKey]> = Arc::new([public_key]);
    let algorithms = Algorithms { algorithm_speeds: smallvec![(&AES_128_GCM, 600.0)], allow_unencrypted: false };
    let mut failing = 0;
    for k in 0..40u8 {
        let mut node_id = [0u8; 16];
        rng.fill(&mut node_id).unwrap();
        let mut other_id = node_id; other_id[(k % 16) as usize] ^= 1 << (k % 8);
        // the same node, second handshake object (fresh salt)
        let mut initiator = InitState::new(node_id, vec![1u8], key_pair.clone(), trusted.clone(), algorithms.clone());
        let mut responder = InitState::new(node_id, vec![1u8], key_pair.clone(), trusted.clone(), algorithms.clone());
        let mut out = MsgBuffer::new(8);
        initiator.send_ping(&mut out);
        match responder.handle_init(&mut out) {
            Err(Error::CryptoInitFatal("Connected to self")) => {}
            other => { failing += 1; if failing <= 3 { println!("FAILING-INPUT: node id {:02x?}: the ping of one handshake object of a node is answered by another handshake object of the SAME node ({}): the node does not recognise itself", node_id, if other.is_ok() { "Ok" } else { "another error" }); } }
        }
        // a different node id must not be mistaken for oneself
        let mut initiator = InitState::new(other_id, vec![1u8], key_pair.clone(), trusted.clone(), algorithms.clone());
        let mut responder = InitState::new(node_id, vec![1u8], key_pair.clone(), trusted.clone(), algorithms.clone());
        let mut out = MsgBuffer::new(8);
        initiator.send_ping(&mut out);
        if let Err(Error::CryptoInitFatal("Connected to self")) = responder.handle_init(&mut out) {
            failing += 1; if failing <= 3 { println!("FAILING-INPUT: node ids {:02x?} and {:02x?} differ, yet the handshake is refused as 'Connected to self'", node_id, other_id); }
        }
    }
    assert_eq!(failing, 0);
}
