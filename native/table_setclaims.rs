// Native search driver for obligation table::ClaimTable::set_claims (property C12): after every announcement the claims
// attributed to the peer are exactly the announced ones.  Exhaustive over announcement pairs from a 3-claim universe
// (all ordered sub-lists incl. duplicates up to length 3), checked through ClaimTable::lookup on one address per claim.
use super::*;
use crate::util::MockTimeSource;
use smallvec::smallvec;
use std::net::ToSocketAddrs;

fn range(i: u8) -> Range {
    let mut data = [0u8; 16];
    data[0] = 10; data[3] = i;
    Range { base: Address { data, len: 4 }, prefix_len: 32 }
}
fn lists() -> Vec<Vec<u8>> {
    let mut out = vec![vec![]];
    for a in 0..3u8 { out.push(vec![a]); for b in 0..3u8 { out.push(vec![a, b]); for c in 0..3u8 { out.push(vec![a, b, c]); } } }
    out
}

#[test]
fn claims_equal_last_announcement() {
    let peer = "1.2.3.4:5".to_socket_addrs().unwrap().next().unwrap();
    let mut failing = 0;
    for first in lists() {
        for second in lists() {
            MockTimeSource::set_time(1000);
            let mut table: ClaimTable<MockTimeSource> = ClaimTable::new(10, 300);
            table.set_claims(peer, first.iter().map(|i| range(*i)).collect());
            MockTimeSource::set_time(1001);
            table.set_claims(peer, second.iter().map(|i| range(*i)).collect());
            table.clear_cache();
            for i in 0..3u8 {
                let routed = table.lookup(range(i).base) == Some(peer);
                let announced = second.contains(&i);
                if routed != announced {
                    failing += 1;
                    if failing <= 3 {
                        println!("FAILING-INPUT: set_claims(peer, {:?}) then set_claims(peer, {:?}): claim #{} announced={} but routed to the peer={}", first, second, i, announced, routed);
                    }
                }
            }
        }
    }
    assert_eq!(failing, 0);
}
