// Native search driver for the age window of beacons (property C17, obligation kani::beaconblocks::beacon_age_window_is_cyclic_distance):
// a beacon made at 16-bit hour stamp h1 and read at hour stamp h2 with age limit ttl must be accepted exactly when the CYCLIC
// distance of the two stamps (in either direction, modulo 65536) is at most ttl. Stamps around the counter wrap, around the ttl
// boundary in both directions, and seeded random triples. Hours whose beacon does not round trip at all (known finding F6:
// masked body starting with 0x00) are skipped: they say nothing about the age test.
use super::*;

#[test]
fn beacon_age_window_is_cyclic() {
    let peers = vec![SocketAddr::from_str("1.2.3.4:5678").unwrap(), SocketAddr::from_str("6.6.6.6:53").unwrap()];
    let ser = BeaconSerializer::<MockTimeSource>::new(b"mysecretkey");
    let mut failing = 0;
    let mut checked = 0;
    let mut x: u64 = 0x2545f4914f6cdd1d;
    let mut next = move || { x ^= x << 13; x ^= x >> 7; x ^= x << 17; x >> 16 };
    let mut triples: Vec<(u16, u16, u16)> = vec![];
    for &h1 in [0u16, 1, 2, 100, 32767, 32768, 65000, 65530, 65534, 65535].iter() {
        for &ttl in [0u16, 1, 2, 24, 100, 32767, 32768, 65534, 65535].iter() {
            for d in [0u16, 1, 2, 23, 24, 25, 99, 100, 101, 32767, 32768, 32769, 65510, 65511, 65512, 65534, 65535].iter() {
                triples.push((h1, h1.wrapping_add(*d), ttl));
                triples.push((h1, h1.wrapping_sub(*d), ttl));
                triples.push((h1, h1.wrapping_add(ttl).wrapping_add(*d), ttl));
                triples.push((h1, h1.wrapping_sub(ttl).wrapping_sub(*d), ttl));
            }
        }
    }
    for _ in 0..3000 { triples.push((next() as u16, next() as u16, next() as u16)); }
    for (h1, h2, ttl) in triples {
        MockTimeSource::set_time(h1 as i64 * 3600);
        let text = ser.encode(&peers);
        if ser.decode(&text, None) != peers { continue; }
        MockTimeSource::set_time(h2 as i64 * 3600 + 65536 * 3600 * 3);
        let got = ser.decode(&text, Some(ttl));
        let dist = std::cmp::min(h2.wrapping_sub(h1), h1.wrapping_sub(h2));
        let want = if dist <= ttl { peers.clone() } else { vec![] };
        checked += 1;
        if got != want {
            failing += 1;
            if failing <= 3 { println!("FAILING-INPUT: beacon made at hour stamp {} read at hour stamp {} with age limit {} h (cyclic distance {}): decoded {:?}, expected {:?}", h1, h2, ttl, dist, got, want); }
        }
    }
    assert!(checked > 1000);
    assert_eq!(failing, 0);
}
