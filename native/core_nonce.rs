// Native search driver for nonce use (property C04, obligations kani::core::nonce_* / rotate_key_contract, kani::coreblocks::*): real
// cores with real ring keys, the send counter of a key slot placed AT and AROUND every byte-carry boundary and the 56-bit limit
// (attached below src/crypto/core.rs, so the private counter can be set). Bound: 3 ciphers x 2 roles x about 90 counter values.
//   - the counter a datagram is sealed with is the previous one + 1 (strictly increasing), and the 7 transmitted bytes are its low 56 bits;
//   - while the counter fits the 56 transmitted bits the other end opens the datagram and gets the plaintext back;
//   - once it no longer fits, the datagram is UNDECRYPTABLE - and it is not sealed under a nonce used before: sealing the same plaintext
//     at counter c + 2^56 and at counter c must not give the same ciphertext and tag (same key, same plaintext, same nonce <=> same bytes);
//   - the two ends seal in different halves: a datagram reflected to its own sender does not open;
//   - a rotated-in key starts in the same half with a fresh counter (high bytes 1..=5 zero).
use super::*;
use ring::aead::{self, LessSafeKey, UnboundKey};

fn fail(failing: &mut usize, msg: String) {
    *failing += 1;
    if *failing <= 3 { println!("FAILING-INPUT: {}", msg); }
}

fn pair(algo: &'static aead::Algorithm) -> (CryptoCore, CryptoCore) {
    let key = [0x42u8; 32];
    let a = CryptoCore::new(LessSafeKey::new(UnboundKey::new(algo, &key[..algo.key_len()]).unwrap()), true);
    let b = CryptoCore::new(LessSafeKey::new(UnboundKey::new(algo, &key[..algo.key_len()]).unwrap()), false);
    (a, b)
}

// counter value (96 bit, big endian) with the half bit of the slot kept
fn set_counter(core: &mut CryptoCore, v: u128) {
    let cur = core.current_key;
    let msb = core.keys[cur].send_nonce.0[0] & 0x80;
    let bytes = v.to_be_bytes();
    core.keys[cur].send_nonce.0.copy_from_slice(&bytes[4..]);
    core.keys[cur].send_nonce.0[0] = (core.keys[cur].send_nonce.0[0] & 0x7f) | msb;
}
fn counter(core: &CryptoCore) -> u128 {
    let cur = core.current_key;
    let mut b = [0u8; 16];
    b[4..].copy_from_slice(&core.keys[cur].send_nonce.0);
    b[4] &= 0x7f;
    u128::from_be_bytes(b)
}

fn seal(core: &mut CryptoCore, plain: &[u8]) -> Vec<u8> {
    let mut buf = MsgBuffer::new(EXTRA_LEN);
    buf.clone_from(plain);
    core.encrypt(&mut buf);
    buf.message().to_vec()
}
fn open(core: &mut CryptoCore, d: &[u8]) -> Option<Vec<u8>> {
    let mut buf = MsgBuffer::new(EXTRA_LEN);
    buf.clone_from(d);
    match core.decrypt(&mut buf) { Ok(()) => Some(buf.message().to_vec()), Err(_) => None }
}

#[test]
fn counters_never_wrap_onto_used_nonces() {
    let mut failing = 0usize;
    let plain = [0x5au8; 40];
    for (an, algo) in [("AES128", &aead::AES_128_GCM), ("AES256", &aead::AES_256_GCM), ("CHACHA20", &aead::CHACHA20_POLY1305)].iter() {
        for &swap in [false, true].iter() {
            // boundary patterns: around every byte carry of the 96-bit counter, the 56-bit limit, and low values
            let mut values: Vec<u128> = vec![0, 1, 2, 254, 255, 256];
            for k in 1..=11u32 { let p = 1u128 << (8 * k); for d in [-2i128, -1, 0, 1, 5].iter() { values.push((p as i128 + d) as u128); } }
            values.push((1u128 << 56) + (1u128 << 20));
            values.push((1u128 << 95) - 3);
            for &v in values.iter() {
                let (mut a, mut b) = pair(*algo);
                if swap { std::mem::swap(&mut a, &mut b); }
                let who = format!("{} core (half {}), counter before sealing {:#x}", an, if swap { "low" } else { "high" }, v);
                set_counter(&mut a, v);
                let d = seal(&mut a, &plain);
                let c1 = counter(&a);
                if c1 != (v + 1) % (1u128 << 95) { fail(&mut failing, format!("{}: the counter after sealing is {:#x}, not the previous one + 1", who, c1)); continue; }
                let low56 = (c1 & ((1u128 << 56) - 1)).to_be_bytes();
                if d.len() < 8 || d[1..8] != low56[9..16] { fail(&mut failing, format!("{}: the 7 transmitted bytes are not the low 56 bits of the counter", who)); continue; }
                let fits = c1 < (1u128 << 56);
                let opened = open(&mut b, &d);
                if fits && opened.as_deref() != Some(&plain[..]) { fail(&mut failing, format!("{}: the other end does not get the plaintext back", who)); continue; }
                if !fits && opened.is_some() { fail(&mut failing, format!("{}: the counter no longer fits the 56 transmitted bits, but the datagram still decrypts (the nonce has wrapped onto the low 56 bits)", who)); continue; }
                if !fits {
                    // the same plaintext sealed under the same key at the counter with the same low 56 bits
                    let (mut a2, mut b2) = pair(*algo);
                    if swap { std::mem::swap(&mut a2, &mut b2); }
                    set_counter(&mut a2, (c1 & ((1u128 << 56) - 1)).wrapping_sub(1) & ((1u128 << 56) - 1));
                    let d2 = seal(&mut a2, &plain);
                    if counter(&a2) == (c1 & ((1u128 << 56) - 1)) && d2[8..] == d[8..] {
                        fail(&mut failing, format!("{}: sealing at counter {:#x} gives the same ciphertext and tag as sealing at counter {:#x}: the (key, nonce) pair is used twice", who, c1, c1 & ((1u128 << 56) - 1)));
                        continue;
                    }
                }
                // reflected to its own sender: the other half, must not open
                if open(&mut a, &d).is_some() { fail(&mut failing, format!("{}: a datagram reflected to its own sender opens (both ends seal in the same half)", who)); }
            }
            // a rotated-in key starts a fresh sequence in the same half
            let (mut a, mut b) = pair(*algo);
            if swap { std::mem::swap(&mut a, &mut b); }
            let half = a.keys[a.current_key].send_nonce.0[0] & 0x80;
            let nk = [0x17u8; 32];
            a.rotate_key(LessSafeKey::new(UnboundKey::new(*algo, &nk[..algo.key_len()]).unwrap()), 1, true);
            let n = a.keys[a.current_key].send_nonce.0;
            if n[0] & 0x80 != half || n[0] & 0x7f != 0 || n[1..6].iter().any(|x| *x != 0) {
                fail(&mut failing, format!("{}: a rotated-in key starts at counter {:02x?} (expected: same half {:#x}, bytes 1..=5 zero)", an, n, half));
            }
            // ... and with a FRESH, unpredictable start: a key rotated into a slot that has already sealed datagrams (id 4 -> slot 0, the
            // handshake key's; id 5 -> slot 1) must not continue that slot's sequence, and two rotations must not start at the same value
            let (mut a, mut b) = pair(*algo);
            if swap { std::mem::swap(&mut a, &mut b); }
            for _ in 0..3 { let _ = seal(&mut a, &plain); }
            let before = counter(&a);
            a.rotate_key(LessSafeKey::new(UnboundKey::new(*algo, &nk[..algo.key_len()]).unwrap()), 4, true);
            let start4 = counter(&a);
            if a.current_key == 0 && start4 >= before && start4 <= before + 8 {
                fail(&mut failing, format!("{}: a key rotated into the slot of the handshake key continues its nonce sequence ({:#x} -> {:#x}) instead of starting a fresh, unpredictable one", an, before, start4));
            }
            let (mut a2, _b2) = pair(*algo);
            a2.rotate_key(LessSafeKey::new(UnboundKey::new(*algo, &nk[..algo.key_len()]).unwrap()), 4, true);
            if counter(&a2) == start4 { fail(&mut failing, format!("{}: two rotated-in keys start at the same counter {:#x}", an, start4)); }
        }
    }
    assert_eq!(failing, 0);
}
