// Native search driver for the OUTCOME of cipher negotiation at handshake level (property C06, obligations initstage::InitState::handle_init
// and initenc::*): two real handshake objects run ping / pong / peng for every pair of advertised lists from
//   subsets of {AES128, AES256, CHACHA20} (8 x 8), every order of the own list (up to 6), both plain flags (4),
//   speed patterns from {0.0, 1.0e-30, 1.0, 100.0, 100.0 (tie), near ties within 1 %, 3.0e38} (bound: 9 patterns per side -> about 120 000 handshakes sampled
//   down to every 3rd combination),
// and the crypto cores they hand over are inspected:
//   - both ends complete, or both fail cleanly (the responder fails on the ping, nobody completes) - and they fail iff they share no
//     cipher and not both enabled plain;
//   - NO core (plain mode) iff both ends enabled plain; otherwise both hold a core for the SAME cipher, a cipher both advertised,
//     whose slower side is fastest (reference computed here from the property text, ties by either maximum);
//   - the outcome does not depend on who initiates.
use super::*;

fn objs(a: &Algorithms, b: &Algorithms) -> (InitState<Vec<u8>>, InitState<Vec<u8>>) {
    let rng = SystemRandom::new();
    let pkcs8_bytes = Ed25519KeyPair::generate_pkcs8(&rng).unwrap();
    let key_pair = Arc::new(Ed25519KeyPair::from_pkcs8(pkcs8_bytes.as_ref()).unwrap());
    let mut public_key = [0; ED25519_PUBLIC_KEY_LEN];
    public_key.clone_from_slice(key_pair.public_key().as_ref());
    let trusted: Arc<[Ed25519PublicKey]> = Arc::new([public_key]);
    (InitState::new([1; 16], vec![1], key_pair.clone(), trusted.clone(), a.clone()), InitState::new([2; 16], vec![2], key_pair, trusted, b.clone()))
}

fn name(a: &'static Algorithm) -> &'static str {
    if a == &AES_128_GCM { "AES128" } else if a == &AES_256_GCM { "AES256" } else { "CHACHA20" }
}

/// Some(None): plain; Some(Some(name)): cipher of the handed-over cores (must agree); None: handshake failed cleanly
fn run(a: &Algorithms, b: &Algorithms) -> Result<Option<Option<&'static str>>, String> {
    let (mut x, mut y) = objs(a, b);
    let mut out = MsgBuffer::new(100);
    x.send_ping(&mut out);
    match y.handle_init(&mut out) {
        Err(_) => return Ok(None),
        Ok(InitResult::Continue) => {}
        Ok(_) => return Err("responder completes on the ping".into()),
    }
    match x.handle_init(&mut out) {
        Err(e) => return Err(format!("the responder answered the ping but the initiator fails on the pong: {}", e)),
        Ok(InitResult::Success { .. }) => {}
        Ok(_) => return Err("initiator does not complete on the pong".into()),
    }
    match y.handle_init(&mut out) {
        Err(e) => return Err(format!("the responder fails on the peng: {}", e)),
        Ok(InitResult::Success { .. }) => {}
        Ok(_) => return Err("responder does not complete on the peng".into()),
    }
    let cx = x.take_core().map(|c| name(c.algorithm()));
    let cy = y.take_core().map(|c| name(c.algorithm()));
    if cx != cy { return Err(format!("initiator holds {:?}, responder holds {:?}", cx, cy)); }
    Ok(Some(cx))
}

#[test]
fn negotiated_outcome_matches_the_property() {
    let all: [&'static Algorithm; 3] = [&AES_128_GCM, &AES_256_GCM, &CHACHA20_POLY1305];
    let orders: [[usize; 3]; 6] = [[0, 1, 2], [0, 2, 1], [1, 0, 2], [1, 2, 0], [2, 0, 1], [2, 1, 0]];
    let speeds: [[f32; 3]; 9] = [[600.0, 500.0, 400.0], [0.0, 0.0, 0.0], [1.0e-30, 0.0, 1.0], [100.0, 100.0, 100.0], [3.0e38, 1.0, 100.0], [0.0, 100.0, 0.0], [1.0, 3.0e38, 3.0e38],
        // near ties: neighbours within 1 %, extremes further apart, in both directions
        [101.2, 100.6, 100.0], [100.0, 100.6, 101.2]];
    let mut failing = 0usize;
    let mut n = 0usize;
    let mut fail = |msg: String| { failing += 1; if failing <= 3 { println!("FAILING-INPUT: {}", msg); } };
    for ma in 0..8u8 { for mb in 0..8u8 { for oa in orders.iter().step_by(2) { for sa in speeds.iter() { for sb in speeds.iter() { for flags in 0..4u8 {
        n += 1;
        if n % 3 != 0 { continue; }
        let la: SmallVec<[(&'static Algorithm, f32); 3]> = oa.iter().filter(|i| ma & (1 << **i) != 0).map(|i| (all[*i], sa[*i])).collect();
        let lb: SmallVec<[(&'static Algorithm, f32); 3]> = (0..3).filter(|i| mb & (1 << *i) != 0).map(|i| (all[i], sb[i])).collect();
        let a = Algorithms { algorithm_speeds: la.clone(), allow_unencrypted: flags & 1 != 0 };
        let b = Algorithms { algorithm_speeds: lb.clone(), allow_unencrypted: flags & 2 != 0 };
        let what = format!("initiator advertises {:?} plain={}, responder advertises {:?} plain={}", la.iter().map(|x| (name(x.0), x.1)).collect::<Vec<_>>(), a.allow_unencrypted, lb.iter().map(|x| (name(x.0), x.1)).collect::<Vec<_>>(), b.allow_unencrypted);
        // reference from the property text
        let both_plain = a.allow_unencrypted && b.allow_unencrypted;
        let common: Vec<(&'static str, f32)> = la.iter().filter_map(|x| lb.iter().find(|y| y.0 == x.0).map(|y| (name(x.0), if x.1 < y.1 { x.1 } else { y.1 }))).collect();
        let best = common.iter().map(|c| c.1).fold(f32::NEG_INFINITY, f32::max);
        let r1 = run(&a, &b);
        let r2 = run(&b, &a);
        for (dir, r) in [("", &r1), (" (roles swapped)", &r2)] {
            match r {
                Err(e) => fail(format!("{}{}: {}", what, dir, e)),
                Ok(None) => if both_plain || !common.is_empty() { fail(format!("{}{}: the handshake fails although {}", what, dir, if both_plain { "both enabled plain" } else { "they share a cipher" })); },
                Ok(Some(None)) => if !both_plain { fail(format!("{}{}: the connection runs UNENCRYPTED although not both ends enabled plain", what, dir)); },
                Ok(Some(Some(c))) => {
                    if both_plain { fail(format!("{}{}: both enabled plain but cipher {} is used", what, dir, c)); }
                    else if common.is_empty() { fail(format!("{}{}: no common cipher but the handshake completes with {}", what, dir, c)); }
                    else if !common.iter().any(|x| x.0 == *c && x.1 == best) { fail(format!("{}{}: cipher {} is used, whose slower side is not fastest (candidates {:?})", what, dir, c, common)); }
                }
            }
        }
        if let (Ok(x), Ok(y)) = (&r1, &r2) { if x != y { fail(format!("{}: outcome {:?}, with roles swapped {:?}", what, x, y)); } }
    } } } } } }
    assert_eq!(failing, 0);
}
