// Native replay driver for the known finding of C17 (obligation base62::lemma_roundtrip_any_body): a beacon whose masked body
// starts with a zero byte is not recovered, because the text form drops leading zero bytes.
use super::*;

#[test]
fn beacons_round_trip_for_every_hour() {
    let peers = vec![SocketAddr::from_str("1.2.3.4:5678").unwrap(), SocketAddr::from_str("6.6.6.6:53").unwrap()];
    let ser = BeaconSerializer::<MockTimeSource>::new(b"mysecretkey");
    let mut failing = 0;
    for hour in 0..3000i64 {
        MockTimeSource::set_time(hour * 3600);
        let text = ser.encode(&peers);
        let back = ser.decode(&text, None);
        if back != peers {
            failing += 1;
            if failing <= 3 { println!("FAILING-INPUT: beacon made at hour {} with password \"mysecretkey\" for {:?} decodes to {:?}", hour, peers, back); }
        }
    }
    if failing > 0 { println!("FAILING-INPUT: {} of 3000 hour stamps fail to round trip", failing); }
    assert_eq!(failing, 0);
}
