// Native search driver for the key text codec (property C18, obligations base62::Crypto::parse_*):
// every 32-byte seed / public key printed with to_base62 must be accepted by the parse functions and denote the same key.
// Seeds with 0..4 leading zero bytes and random remainder, plus random seeds.
use super::*;
use crate::util::to_base62;

#[test]
fn printed_keys_are_accepted() {
    let mut failing = 0;
    let mut x: u64 = 0x243f6a8885a308d3;
    let mut next = || { x ^= x << 13; x ^= x >> 7; x ^= x << 17; (x >> 24) as u8 };
    for zeros in 0..=4usize {
        for _ in 0..50 {
            let mut seed = [0u8; 32];
            for (i, b) in seed.iter_mut().enumerate() { if i >= zeros { *b = next() | 1; } }
            let text = to_base62(&seed);
            // as public key / trusted key
            match Crypto::parse_public_key(&text) {
                Ok(k) if k == seed => {}
                other => { failing += 1; if failing <= 3 { println!("FAILING-INPUT: 32-byte key {:?} prints as {:?}; parse_public_key gives {:?}", seed, text, other.map_err(|e| e.to_string())); } }
            }
            // as private key
            let expected = Ed25519KeyPair::from_seed_unchecked(&seed).unwrap();
            match Crypto::parse_private_key(&text) {
                Ok(kp) if kp.public_key().as_ref() == expected.public_key().as_ref() => {
                    let pub_text = to_base62(expected.public_key().as_ref());
                    if Crypto::parse_keypair(&text, &pub_text).is_err() {
                        failing += 1;
                        if failing <= 3 { println!("FAILING-INPUT: key pair printed as ({:?}, {:?}) is rejected by parse_keypair", text, pub_text); }
                    }
                }
                other => { failing += 1; if failing <= 3 { println!("FAILING-INPUT: seed {:?} prints as {:?}; parse_private_key gives {:?}", seed, text, other.map(|_| "a different key").map_err(|e| e.to_string())); } }
            }
        }
    }
    // a printed key pair CONFIGURED as the node's key denotes the same keys - whatever else the configuration holds: the key pair alone,
    // only the private key, and either of them next to a (left-over) password; a password alone gives the password's pair
    {
        let (priv_text, pub_text) = Crypto::generate_keypair(None);
        let (pw_priv, pw_pub) = Crypto::generate_keypair(Some("left-over password"));
        let _ = pw_priv;
        let own_key = |c: &Config| -> Result<String, String> { Crypto::new([7; 16], c).map(|cr| to_base62(cr.key_pair.public_key().as_ref())).map_err(|e| e.to_string()) };
        for &with_pub in [true, false].iter() { for &with_pw in [false, true].iter() {
            let c = Config { private_key: Some(priv_text.clone()), public_key: if with_pub { Some(pub_text.clone()) } else { None }, password: if with_pw { Some("left-over password".to_string()) } else { None }, ..Default::default() };
            let got = own_key(&c);
            if got != Ok(pub_text.clone()) {
                failing += 1;
                if failing <= 3 { println!("FAILING-INPUT: a generated key pair configured as private key{}{}: the node uses the key {:?}, not the printed public key {:?}", if with_pub { " + public key" } else { "" }, if with_pw { " next to a password" } else { "" }, got, pub_text); }
            }
        } }
        let c = Config { password: Some("left-over password".to_string()), ..Default::default() };
        if own_key(&c) != Ok(pw_pub.clone()) { failing += 1; println!("FAILING-INPUT: a node configured with a password only does not use the key pair printed for that password"); }
        // with nothing else configured the node trusts exactly its own key
        if let Ok(cr) = Crypto::new([7; 16], &c) { if cr.trusted_keys.len() != 1 || to_base62(&cr.trusted_keys[0]) != pw_pub { failing += 1; println!("FAILING-INPUT: a node without configured trusted keys does not trust exactly its own public key"); } }
    }
    assert_eq!(failing, 0);
}
