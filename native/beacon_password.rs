// Native search driver for "a beacon made with a different password is ignored" (property C17, obligation
// beacon::BeaconSerializer::get_keystream): pairs of different passwords - empty, short, long (up to 400 bytes), differing in one byte
// at every position, and proper extensions of each other - must not read each other's beacons, while each reads its own.
use super::*;

#[test]
fn beacons_of_other_passwords_are_ignored() {
    let peers = vec![SocketAddr::from_str("1.2.3.4:5678").unwrap(), SocketAddr::from_str("6.6.6.6:53").unwrap()];
    let mut failing = 0;
    let mut pairs: Vec<(Vec<u8>, Vec<u8>)> = vec![(vec![], b"a".to_vec()), (b"mysecretkey".to_vec(), b"mysecretkez".to_vec())];
    for &len in [1usize, 2, 16, 61, 64, 124, 125, 126, 127, 128, 129, 200, 256, 400].iter() {
        let base: Vec<u8> = (0..len).map(|i| (i * 7 + 3) as u8).collect();
        for &pos in [0usize, len / 2, len.saturating_sub(2), len - 1].iter() {
            let mut other = base.clone(); other[pos] ^= 0x55;
            pairs.push((base.clone(), other));
        }
        let mut ext = base.clone(); ext.push(0x42);
        pairs.push((base.clone(), ext.clone()));
        ext.extend_from_slice(&[1, 2, 3, 4, 5, 6, 7, 8]);
        pairs.push((base.clone(), ext));
    }
    MockTimeSource::set_time(2000 * 3600);
    for (a, b) in pairs {
        let sa = BeaconSerializer::<MockTimeSource>::new(&a);
        let sb = BeaconSerializer::<MockTimeSource>::new(&b);
        for (x, y, xn, yn) in [(&sa, &sb, &a, &b), (&sb, &sa, &b, &a)].iter() {
            let text = x.encode(&peers);
            let other = y.decode(&text, None);
            if !other.is_empty() {
                failing += 1;
                if failing <= 3 { println!("FAILING-INPUT: beacon made with the {}-byte password {:?} is accepted by a node using the different {}-byte password {:?}: decoded {:?}", xn.len(), String::from_utf8_lossy(xn), yn.len(), String::from_utf8_lossy(yn), other); }
            }
        }
    }
    assert_eq!(failing, 0);
}
