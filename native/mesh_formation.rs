// Native search driver for mesh formation (property C14, first sentence: "any set of mutually trusting nodes whose initial connect
// instructions form a connected graph becomes fully meshed - every pair mutually connected - within a bounded number of peer-exchange
// intervals on a reliable network"; liveness over multi-node histories, outside the reach of per-function contracts: BOUNDED stand-in).
// Bound: all labelled trees on 3 and 4 nodes and chains / stars / a ring on 5, each with three orientation patterns of the dial instructions
// (low->high, high->low, alternating), in three crypto settings (default ciphers; plain allowed by everybody; mixed: plain-only ends with
// plain+AES256 in the middle where the graph is a chain), reliable delivery, 1000 s of housekeeping (more than three default exchange
// intervals). Attached below src/tests/common.rs (in-tree simulator). At no time may a node be connected to itself.
use super::*;

fn fail(failing: &mut usize, msg: String) {
    *failing += 1;
    if *failing <= 3 { println!("FAILING-INPUT: {}", msg); }
}

fn run(n: usize, edges: &[(usize, usize)], orient: u8, crypto: u8, failing: &mut usize) {
    let mut sim = TapSimulator::new();
    let addrs: Vec<SocketAddr> = (0..n).map(|i| {
        let mut c = Config::default();
        match crypto {
            1 => c.crypto.algorithms = vec!["plain".to_string()],
            2 => c.crypto.algorithms = if i == 0 || i == n - 1 { vec!["plain".to_string()] } else { vec!["plain".to_string(), "aes256".to_string()] },
            _ => {}
        }
        sim.add_node(false, &c)
    }).collect();
    for (k, &(a, b)) in edges.iter().enumerate() {
        let (x, y) = match orient { 0 => (a, b), 1 => (b, a), _ => if k % 2 == 0 { (a, b) } else { (b, a) } };
        sim.connect(addrs[x], addrs[y]);
    }
    sim.simulate_all_messages();
    let what = format!("{} nodes, dial instructions {:?} (orientation pattern {}), crypto setting {}", n, edges, orient, ["default ciphers", "plain allowed by everybody", "plain-only ends, plain+aes256 in the middle"][crypto as usize]);
    let mut t: Time = 0;
    let mut meshed_at = None;
    while t < 1000 {
        t += 1;
        sim.set_time(t);
        sim.trigger_housekeep();
        let mut budget = 200000;
        while sim.message_count() > 0 && budget > 0 { sim.simulate_next_message(); budget -= 1; }
        if budget == 0 { fail(failing, format!("{}: endless exchange of datagrams at t={}", what, t)); return; }
        for &a in &addrs { if sim.is_connected(a, a) { fail(failing, format!("{}: at t={} node {} is connected to ITSELF", what, t, a)); return; } }
        if meshed_at.is_none() && addrs.iter().all(|a| addrs.iter().all(|b| a == b || sim.is_connected(*a, *b))) { meshed_at = Some(t); }
    }
    if meshed_at.is_none() {
        let missing: Vec<(usize, usize)> = (0..n).flat_map(|i| (0..n).map(move |j| (i, j))).filter(|(i, j)| i != j && !sim.is_connected(addrs[*i], addrs[*j])).collect();
        fail(failing, format!("{}: after 1000 s on a reliable network the mesh is not complete; missing connections (node -> node): {:?}", what, missing));
    }
}

#[test]
fn connected_bootstrap_graphs_become_full_meshes() {
    let mut failing = 0usize;
    let graphs: Vec<(usize, Vec<(usize, usize)>)> = vec![
        (2, vec![(0, 1)]),
        (3, vec![(0, 1), (1, 2)]), (3, vec![(0, 1), (0, 2)]), (3, vec![(0, 2), (1, 2)]),
        (4, vec![(0, 1), (1, 2), (2, 3)]), (4, vec![(0, 1), (0, 2), (0, 3)]), (4, vec![(0, 1), (1, 2), (1, 3)]), (4, vec![(0, 2), (2, 1), (1, 3)]), (4, vec![(3, 0), (3, 1), (3, 2)]),
        (5, vec![(0, 1), (1, 2), (2, 3), (3, 4)]), (5, vec![(2, 0), (2, 1), (2, 3), (2, 4)]), (5, vec![(0, 1), (1, 2), (2, 3), (3, 4), (4, 0)]),
    ];
    for (n, edges) in graphs.iter() { for orient in 0..3u8 { for crypto in 0..3u8 {
        if crypto == 2 && *n < 3 { continue; }
        run(*n, edges, orient, crypto, &mut failing);
    } } }
    assert_eq!(failing, 0);
}
