// Native search driver for the handshake stage machine (properties C08 / C01 / C14 / C06, obligations initstage::InitState::*):
// real InitState objects of two mutually trusting nodes A and B (two objects each, plus fresh responder objects), a growing pool of
// GENUINE handshake datagrams (everything any object ever emitted, including those of an earlier session), and random schedules of
// up to 14 steps: deliver any pooled datagram to any object (replay, reordering, duplication, reflection to its own node), or tick an
// object (every_second). Bound: 6000 schedules x 14 steps, 4 + 2 objects. Everything runs under catch_unwind.
//   - no step panics (an object that returned a FATAL error is discarded, as the node does);
//   - a forged datagram (bit flip / truncation of a genuine one, random bytes) is an error in EVERY stage and leaves the stage as it was;
//   - an object reports success at most once, and only with the node information of the OTHER node (never its own node's);
//   - an object never reports success on a datagram emitted by an object of its own node;
//   - an unfinished object fails fatally exactly after MAX_FAILED_RETRIES successful ticks; a finished one never fails.
use super::*;
use std::panic::{self, AssertUnwindSafe};

struct Rng(u64);
impl Rng {
    fn next(&mut self) -> u64 { self.0 ^= self.0 << 13; self.0 ^= self.0 >> 7; self.0 ^= self.0 << 17; self.0 }
    fn below(&mut self, n: u64) -> u64 { (self.next() >> 11) % n }
}

struct Obj { st: InitState<Vec<u8>>, node: u8, dead: bool, successes: usize, trace: Vec<String> }

fn mk(node: u8, key_pair: &Arc<Ed25519KeyPair>, trusted: &Arc<[Ed25519PublicKey]>, plain: bool) -> Obj {
    let algorithms = Algorithms {
        algorithm_speeds: smallvec![(&AES_128_GCM, 600.0), (&AES_256_GCM, 500.0), (&CHACHA20_POLY1305, 400.0)],
        allow_unencrypted: plain,
    };
    Obj { st: InitState::new([node; 16], vec![node, node, node], key_pair.clone(), trusted.clone(), algorithms), node, dead: false, successes: 0, trace: vec![] }
}


// every check of this driver is tagged with the properties whose statement it is taken from; when the driver is consulted for ONE
// property (VERIF_PROPERTY, set by ./check) only the failures tagged with it count
fn counts(tags: &str) -> bool {
    match std::env::var("VERIF_PROPERTY") { Ok(p) if !p.is_empty() => tags.split(',').any(|t| t == p), _ => true }
}
fn fail(tags: &str, failing: &mut usize, msg: String) {
    if !counts(tags) { return; }
    *failing += 1;
    if *failing <= 3 { println!("FAILING-INPUT: {}", msg); }
}

#[test]
fn handshake_stage_machine_survives_replays_and_never_completes_twice_or_with_itself() {
    let hook = panic::take_hook();
    panic::set_hook(Box::new(|_| {}));
    let mut failing = 0usize;
    let rng = SystemRandom::new();
    let pkcs8_bytes = Ed25519KeyPair::generate_pkcs8(&rng).unwrap();
    let key_pair = Arc::new(Ed25519KeyPair::from_pkcs8(pkcs8_bytes.as_ref()).unwrap());
    let mut public_key = [0; ED25519_PUBLIC_KEY_LEN];
    public_key.clone_from_slice(key_pair.public_key().as_ref());
    let trusted: Arc<[Ed25519PublicKey]> = Arc::new([public_key]);
    let mut r = Rng(0x9e37_79b9_7f4a_7c15);
    for round in 0..6000u32 {
        let plain = round % 5 == 4;
        // objects 0,1: node 1 (A); 2,3: node 2 (B); 4,5: fresh responders of A and B created on demand
        let mut objs: Vec<Obj> = vec![mk(1, &key_pair, &trusted, plain), mk(1, &key_pair, &trusted, plain), mk(2, &key_pair, &trusted, plain), mk(2, &key_pair, &trusted, plain),
                                      mk(1, &key_pair, &trusted, plain), mk(2, &key_pair, &trusted, plain)];
        // pool of genuine datagrams: (bytes, node of the emitting object)
        let mut pool: Vec<(Vec<u8>, u8, String)> = vec![];
        // an earlier, completed session between A and B fills the pool with old but genuine messages
        {
            let mut a = mk(1, &key_pair, &trusted, plain);
            let mut b = mk(2, &key_pair, &trusted, plain);
            let mut out = MsgBuffer::new(100);
            a.st.send_ping(&mut out);
            pool.push((out.message().to_vec(), 1, "old ping of A".into()));
            let _ = b.st.handle_init(&mut out);
            pool.push((out.message().to_vec(), 2, "old pong of B".into()));
            let _ = a.st.handle_init(&mut out);
            pool.push((out.message().to_vec(), 1, "old peng of A".into()));
        }
        // objects 0 and 2 start as initiators (dual open possible), the others wait
        for i in [0usize, 2] {
            if r.below(3) != 0 {
                let mut out = MsgBuffer::new(100);
                objs[i].st.send_ping(&mut out);
                pool.push((out.message().to_vec(), objs[i].node, format!("ping of object {}", i)));
                objs[i].trace.push("send_ping".into());
            }
        }
        let mut ticks_ok = vec![0usize; objs.len()];
        for _step in 0..14 {
            let oi = r.below(objs.len() as u64) as usize;
            if objs[oi].dead { continue; }
            if r.below(5) == 0 || pool.is_empty() {
                // tick
                let before_stage = objs[oi].st.stage();
                let mut out = MsgBuffer::new(100);
                let res = panic::catch_unwind(AssertUnwindSafe(|| objs[oi].st.every_second(&mut out).is_ok()));
                objs[oi].trace.push("tick".into());
                match res {
                    Err(_) => { fail("C08", &mut failing, format!("every_second panics on object {} (node {}) after [{}]", oi, objs[oi].node, objs[oi].trace.join(", "))); objs[oi].dead = true; }
                    Ok(true) => { ticks_ok[oi] += 1; if !out.is_empty() { pool.push((out.message().to_vec(), objs[oi].node, format!("retransmission of object {}", oi))); } }
                    Ok(false) => {
                        if before_stage == WAITING_TO_CLOSE || before_stage == CLOSING {
                            fail("C05", &mut failing, format!("every_second fails on the FINISHED object {} after [{}]", oi, objs[oi].trace.join(", ")));
                        }
                        objs[oi].dead = true;
                    }
                }
                continue;
            }
            let mi = r.below(pool.len() as u64) as usize;
            if r.below(4) == 0 {
                // a FORGED datagram (one byte of a genuine one altered, a truncation of it, or random bytes): whatever the stage of the
                // receiving object, it is an error, nothing is answered and the object is as it was (C01)
                let mut forged = pool[mi].0.clone();
                let kind = r.below(3);
                if kind == 0 { let i = r.below(forged.len() as u64) as usize; forged[i] ^= 1 << r.below(8); }
                else if kind == 1 {
                    // (the decoder is handed the WHOLE tail of the buffer array, not just the datagram - `out.buffer()` - so a truncated
                    // datagram is completed by whatever lies behind it, here zeros: cut only where that differs from the genuine bytes)
                    let n = r.below(forged.len() as u64) as usize;
                    if forged[n..].iter().all(|b| *b == 0) { continue; }
                    forged.truncate(n);
                }
                else { forged = (0..r.below(200)).map(|_| (r.next() >> 24) as u8).collect(); }
                let before_stage = objs[oi].st.stage();
                let mut out = MsgBuffer::new(100);
                out.clone_from(&forged);
                // 0: Ok, 1: recoverable error, 2: FATAL error (the node discards the handshake object on those)
                let res = panic::catch_unwind(AssertUnwindSafe(|| match objs[oi].st.handle_init(&mut out) { Ok(_) => 0u8, Err(Error::CryptoInitFatal(_)) => 2, Err(_) => 1 }));
                objs[oi].trace.push(format!("recv FORGED ({})", ["bit flip", "truncation", "random bytes"][kind as usize]));
                if matches!(res, Ok(2)) {
                    fail("C01", &mut failing, format!("a FORGED handshake datagram ({} bytes) makes object {} (stage {}) report a FATAL handshake error - the node then discards the handshake in progress - after [{}]", forged.len(), oi, before_stage, objs[oi].trace.join(", ")));
                    objs[oi].dead = true;
                    continue;
                }
                let res = res.map(|c| c == 0);
                match res {
                    Err(_) => { fail("C08", &mut failing, format!("handle_init panics on a forged datagram, object {} after [{}]", oi, objs[oi].trace.join(", "))); objs[oi].dead = true; }
                    Ok(true) => { fail("C01,C08", &mut failing, format!("a FORGED handshake datagram ({} bytes) is accepted (answered with {} bytes) by object {} in stage {} after [{}]; it was made from the {}-byte datagram \"{}\"", forged.len(), out.len(), oi, before_stage, objs[oi].trace.join(", "), pool[mi].0.len(), pool[mi].2)); }
                    Ok(false) => {
                        if objs[oi].st.stage() != before_stage { fail("C01,C08", &mut failing, format!("a forged handshake datagram moves object {} from stage {} to stage {} after [{}]", oi, before_stage, objs[oi].st.stage(), objs[oi].trace.join(", "))); }
                    }
                }
                continue;
            }
            let (bytes, from_node, what) = pool[mi].clone();
            let mut out = MsgBuffer::new(100);
            out.clone_from(&bytes);
            let own_payload = vec![objs[oi].node; 3];
            let res = panic::catch_unwind(AssertUnwindSafe(|| objs[oi].st.handle_init(&mut out)));
            objs[oi].trace.push(format!("recv {}", what));
            match res {
                Err(_) => {
                    fail("C08", &mut failing, format!("handle_init panics on object {} (node {}, plain={}) after [{}]", oi, objs[oi].node, plain, objs[oi].trace.join(", ")));
                    objs[oi].dead = true;
                }
                Ok(Err(Error::CryptoInitFatal(_))) => { objs[oi].dead = true; }
                Ok(Err(_)) => {}
                Ok(Ok(InitResult::Continue)) => {
                    if !out.is_empty() { pool.push((out.message().to_vec(), objs[oi].node, format!("reply of object {}", oi))); }
                }
                Ok(Ok(InitResult::Success { peer_payload, .. })) => {
                    objs[oi].successes += 1;
                    if !out.is_empty() { pool.push((out.message().to_vec(), objs[oi].node, format!("peng of object {}", oi))); }
                    if objs[oi].successes > 1 {
                        fail("C01,C05", &mut failing, format!("object {} (node {}) completes its handshake a SECOND time after [{}]", oi, objs[oi].node, objs[oi].trace.join(", ")));
                    }
                    if from_node == objs[oi].node {
                        fail("C14", &mut failing, format!("object {} of node {} completes a handshake on a datagram emitted by its OWN node ({}) after [{}]", oi, objs[oi].node, what, objs[oi].trace.join(", ")));
                    }
                    if peer_payload == own_payload {
                        fail("C14", &mut failing, format!("object {} of node {} completes a handshake with its OWN node information as peer payload after [{}]", oi, objs[oi].node, objs[oi].trace.join(", ")));
                    }
                }
            }
        }
    }
    // retry horizon: an initiator nobody answers retransmits MAX_FAILED_RETRIES times, then fails fatally; a finished object never fails
    {
        let mut a = mk(1, &key_pair, &trusted, false);
        let mut out = MsgBuffer::new(100);
        a.st.send_ping(&mut out);
        let mut oks = 0usize;
        loop {
            let mut o = MsgBuffer::new(100);
            match panic::catch_unwind(AssertUnwindSafe(|| a.st.every_second(&mut o).is_ok())) {
                Err(_) => { fail("C08", &mut failing, format!("every_second panics after {} retransmissions", oks)); break; }
                Ok(true) => { oks += 1; if oks > MAX_FAILED_RETRIES + 5 { break; } }
                Ok(false) => break,
            }
        }
        if oks != MAX_FAILED_RETRIES { fail("C05", &mut failing, format!("an unanswered initiator retransmits {} times before giving up, not MAX_FAILED_RETRIES = {}", oks, MAX_FAILED_RETRIES)); }
        let mut a = mk(1, &key_pair, &trusted, false);
        let mut b = mk(2, &key_pair, &trusted, false);
        let mut out = MsgBuffer::new(100);
        a.st.send_ping(&mut out);
        let _ = b.st.handle_init(&mut out);
        let _ = a.st.handle_init(&mut out);
        let _ = b.st.handle_init(&mut out);
        for (name, o) in [("initiator", &mut a), ("responder", &mut b)] {
            for t in 0..300 {
                let mut buf = MsgBuffer::new(100);
                match panic::catch_unwind(AssertUnwindSafe(|| o.st.every_second(&mut buf).is_ok())) {
                    Ok(true) => {}
                    Ok(false) => { fail("C05,C12", &mut failing, format!("every_second fails on the finished {} at tick {}", name, t)); break; }
                    Err(_) => { fail("C08", &mut failing, format!("every_second panics on the finished {} at tick {}", name, t)); break; }
                }
            }
        }
    }
    panic::set_hook(hook);
    assert_eq!(failing, 0);
}
