// Native search driver for the text codec (properties C17 / C18, obligations base62::{to_base62, base62_add_mult_16, from_base62}):
// byte strings of every length 0..=300 with high, low and random leading bytes: to_base62 never panics, from_base62 recovers exactly
// the bytes (for strings that do not start with 0x00; leading zero bytes are dropped by design of the number format).
use super::*;
use std::panic;

#[test]
fn text_codec_round_trips_long_strings() {
    let hook = panic::take_hook();
    panic::set_hook(Box::new(|_| {}));
    let mut failing = 0;
    let mut x: u64 = 0x6a09e667f3bcc909;
    let mut next = move || { x ^= x << 13; x ^= x >> 7; x ^= x << 17; (x >> 32) as u8 };
    for len in 0..=300usize {
        for lead in [0xffu8, 0x80, 0x01, 0x3d, 0xfe].iter() {
            let mut data: Vec<u8> = (0..len).map(|_| next()).collect();
            if len > 0 { data[0] = *lead; }
            let d2 = data.clone();
            match panic::catch_unwind(move || to_base62(&d2)) {
                Err(_) => { failing += 1; if failing <= 3 { println!("FAILING-INPUT: to_base62 panics on a {}-byte string starting with {:#04x}", len, lead); } }
                Ok(text) => match from_base62(&text) {
                    Ok(back) if back == data => {}
                    other => { failing += 1; if failing <= 3 { println!("FAILING-INPUT: {}-byte string starting with {:#04x}: text {:?}.. decodes to {:?}", len, lead, &text[..text.len().min(20)], other.map(|v| v.len())); } }
                },
            }
        }
    }
    panic::set_hook(hook);
    assert_eq!(failing, 0);
}
