// Native search driver at node level for peer bookkeeping (properties C15 / C12 / C13, obligations peers::* and
// kani::timing::housekeep_interval_*): real nodes on the in-tree simulator (attached below src/tests/common.rs so that a node can be
// taken off the network).
//   1. healthy meshes with heterogeneous peer timeouts / keep-alives: nobody ever forgets a reachable peer (checked between
//      housekeeping and delivery, so a forget-and-redial within one second is seen);
//   2. a peer that goes silent is forgotten once the OWN peer timeout has passed, whatever timeout it advertised, and from then on
//      neither its claims (router) nor the addresses learned from it (switch) select it as next hop.
use super::*;
use crate::config::DEFAULT_PEER_TIMEOUT;

fn fail(failing: &mut usize, msg: String) {
    *failing += 1;
    if *failing <= 3 { println!("FAILING-INPUT: {}", msg); }
}

fn cfg(device_type: Type, peer_timeout: u32, keepalive: Option<u32>) -> Config {
    Config { device_type, peer_timeout, keepalive, ..Config::default() }
}

fn healthy_mesh(settings: &[(u32, Option<u32>)], horizon: Time, failing: &mut usize) {
    let mut sim = TapSimulator::new();
    let nodes: Vec<SocketAddr> = settings.iter().map(|(t, k)| sim.add_node(false, &cfg(Type::Tap, *t, *k))).collect();
    for i in 0..nodes.len() { for j in i + 1..nodes.len() { sim.connect(nodes[i], nodes[j]); } }
    sim.simulate_all_messages();
    for &a in &nodes { for &b in &nodes { if a != b && !sim.is_connected(a, b) { fail(failing, format!("mesh {:?}: {} and {} do not connect", settings, a, b)); return; } } }
    let mut t = 0;
    while t < horizon {
        t += 1;
        sim.set_time(t);
        sim.trigger_housekeep();
        for (i, &a) in nodes.iter().enumerate() { for (j, &b) in nodes.iter().enumerate() {
            if a != b && !sim.is_connected(a, b) {
                fail(failing, format!("healthy mesh with (peer timeout, keepalive) = {:?} on a delivering network: at t={} node {} (timeout {}) has forgotten the reachable node {} (timeout {})", settings, t, i + 1, settings[i].0, j + 1, settings[j].0));
                return;
            }
        } }
        sim.simulate_all_messages();
    }
}

fn silent_peer(own_timeout: u32, silent_timeout: u32, tap: bool, failing: &mut usize) {
    // A (under test), B (goes silent), C (witness)
    let mut sim: Simulator<Frame>;
    let mut simr: Simulator<Packet>;
    let what = if tap { "switch" } else { "router" };
    macro_rules! run { ($sim:ident, $ty:expr, $ca:expr, $cb:expr, $cc:expr, $to_b:expr, $from_b:expr) => {{
        let a = $sim.add_node(false, &Config { claims: $ca, ..cfg($ty, own_timeout, None) });
        let b = $sim.add_node(false, &Config { claims: $cb, ..cfg($ty, silent_timeout, None) });
        let c = $sim.add_node(false, &Config { claims: $cc, ..cfg($ty, own_timeout, None) });
        $sim.connect(a, b); $sim.connect(a, c); $sim.connect(b, c);
        $sim.simulate_all_messages();
        if !$sim.is_connected(a, b) || !$sim.is_connected(a, c) { fail(failing, format!("{}: nodes do not connect", what)); return; }
        // B talks (A learns its address in switch mode), then leaves the network without a close message
        $sim.put_payload(b, $from_b);
        $sim.simulate_all_messages();
        while $sim.pop_payload(a).is_some() {}
        while $sim.pop_payload(c).is_some() {}
        let t0: Time = 10;
        $sim.set_time(t0);
        $sim.put_payload(b, $from_b);
        $sim.simulate_all_messages();
        $sim.nodes.remove(&b);
        let mut t = t0;
        let deadline = t0 + own_timeout as Time + 2;
        let end = deadline + 400;
        while t < end {
            t += 1;
            $sim.set_time(t);
            $sim.trigger_node_housekeep(a);
            $sim.trigger_node_housekeep(c);
            $sim.simulate_all_messages();
            if t >= deadline {
                if $sim.is_connected(a, b) {
                    fail(failing, format!("{}: own peer timeout {} s, silent peer advertised {} s: at t={} ({} s after its last message) the silent peer is still a peer", what, own_timeout, silent_timeout, t, t - t0));
                    return;
                }
                if (t - deadline) % 7 == 0 {
                    // a frame / packet for B's address must not be sent to B any more
                    $sim.messages.clear();
                    $sim.put_payload(a, $to_b);
                    let big = |l: usize| l >= $to_b.len() + 8;
                    let to_b = $sim.messages.iter().filter(|m| m.1 == b && big(m.2.len())).count();
                    let to_c = $sim.messages.iter().filter(|m| m.1 == c && big(m.2.len())).count();
                    if to_b > 0 {
                        fail(failing, format!("{}: own peer timeout {} s: at t={} ({} s after the silent peer's last message, it has been forgotten) a payload for its address is still sent to it ({} datagram(s))", what, own_timeout, t, t - t0, to_b));
                        return;
                    }
                    if tap && to_c != 1 {
                        fail(failing, format!("{}: own peer timeout {} s: at t={} ({} s after the silent peer's last message, it has been forgotten) a frame for the address learned from it is not flooded to the remaining peer ({} datagrams): a route still points at the forgotten peer", what, own_timeout, t, t - t0, to_c));
                        return;
                    }
                    $sim.messages.clear();
                }
            }
        }
    }}; }
    if tap {
        sim = TapSimulator::new();
        let frame_to_b = { let mut f = vec![0xb, 0xb, 0xb, 0xb, 0xb, 0xb, 0xa, 0xa, 0xa, 0xa, 0xa, 0xa]; f.extend_from_slice(&[7u8; 60]); f };
        let frame_from_b = { let mut f = vec![0xa, 0xa, 0xa, 0xa, 0xa, 0xa, 0xb, 0xb, 0xb, 0xb, 0xb, 0xb]; f.extend_from_slice(&[8u8; 60]); f };
        run!(sim, Type::Tap, vec![], vec![], vec![], frame_to_b.clone(), frame_from_b.clone());
    } else {
        simr = TunSimulator::new();
        let mut to_b = vec![0x40u8, 0, 0, 0, 0, 0, 0, 0, 0, 0, 0, 0, 10, 0, 0, 1, 10, 0, 1, 1]; to_b.extend_from_slice(&[7u8; 60]);
        let mut from_b = vec![0x40u8, 0, 0, 0, 0, 0, 0, 0, 0, 0, 0, 0, 10, 0, 1, 1, 10, 0, 0, 1]; from_b.extend_from_slice(&[8u8; 60]);
        run!(simr, Type::Tun, vec!["10.0.0.1/32".to_string()], vec!["10.0.1.1/32".to_string()], vec!["10.0.2.1/32".to_string()], to_b.clone(), from_b.clone());
    }
}

#[test]
fn peers_time_out_when_silent_and_never_when_healthy() {
    let mut failing = 0usize;
    let _ = DEFAULT_PEER_TIMEOUT;
    for settings in [
        vec![(300u32, None), (60, None), (1000, None)],
        vec![(300, None), (60, Some(80))],
        vec![(120, None), (121, None), (65535, None)],
        vec![(300, Some(30)), (90, None), (600, Some(200)), (45, None)],
    ].iter() {
        let horizon = 3 * settings.iter().map(|s| s.0).max().unwrap().min(1200) as Time;
        healthy_mesh(settings, horizon, &mut failing);
    }
    for &(own, silent) in [(60u32, 600u32), (300, 60), (120, 120), (200, 1000)].iter() {
        silent_peer(own, silent, true, &mut failing);
        silent_peer(own, silent, false, &mut failing);
    }
    assert_eq!(failing, 0);
}
