// Native search driver at node level for peer bookkeeping (properties C15 / C12 / C13, obligations peers::* and
// kani::timing::housekeep_interval_*): real nodes on the in-tree simulator (attached below src/tests/common.rs so that a node can be
// taken off the network).
//   1. healthy meshes with heterogeneous peer timeouts / keep-alives: nobody ever forgets a reachable peer (checked between
//      housekeeping and delivery, so a forget-and-redial within one second is seen);
//   1b. a node that restarts with a different advertised timeout and reconnects from the same address is not forgotten afterwards;
//   1c. a node whose housekeeping tick fails every time (an unreadable beacon file) keeps announcing itself and is not forgotten;
//   2. a peer that goes silent is forgotten once the OWN peer timeout has passed, whatever timeout it advertised, and from then on
//      neither its claims (router) nor the addresses learned from it (switch) select it as next hop.
use super::*;
use crate::config::DEFAULT_PEER_TIMEOUT;


// every check of this driver is tagged with the properties whose statement it is taken from; when the driver is consulted for ONE
// property (VERIF_PROPERTY, set by ./check) only the failures tagged with it count
fn counts(tags: &str) -> bool {
    match std::env::var("VERIF_PROPERTY") { Ok(p) if !p.is_empty() => tags.split(',').any(|t| t == p), _ => true }
}
fn fail(tags: &str, failing: &mut usize, msg: String) {
    if !counts(tags) { return; }
    *failing += 1;
    if *failing <= 3 { println!("FAILING-INPUT: {}", msg); }
}

// delivery with a budget: an endless exchange of datagrams within one instant (a redial / re-handshake loop) is reported, not waited for
fn drain<P: Protocol>(sim: &mut Simulator<P>) -> bool {
    let mut n = 0usize;
    while !sim.messages.is_empty() {
        sim.simulate_next_message();
        n += 1;
        if n > 20000 { sim.messages.clear(); return false; }
    }
    true
}
macro_rules! deliver { ($sim:expr, $failing:expr, $what:expr) => { if !drain(&mut $sim) { fail("C15,C05", $failing, format!("{}: the nodes exchange more than 20000 datagrams within one instant (endless redial / re-handshake loop)", $what)); return; } }; }

fn cfg(device_type: Type, peer_timeout: u32, keepalive: Option<u32>) -> Config {
    Config { device_type, peer_timeout, keepalive, ..Config::default() }
}

fn healthy_mesh(settings: &[(u32, Option<u32>)], horizon: Time, failing: &mut usize) {
    let mut sim = TapSimulator::new();
    let nodes: Vec<SocketAddr> = settings.iter().map(|(t, k)| sim.add_node(false, &cfg(Type::Tap, *t, *k))).collect();
    for i in 0..nodes.len() { for j in i + 1..nodes.len() { sim.connect(nodes[i], nodes[j]); } }
    deliver!(sim, failing, format!("mesh {:?}", settings));
    for &a in &nodes { for &b in &nodes { if a != b && !sim.is_connected(a, b) { fail("C15,C12,C13", failing, format!("mesh {:?}: {} and {} do not connect", settings, a, b)); return; } } }
    let mut t = 0;
    while t < horizon {
        t += 1;
        sim.set_time(t);
        sim.trigger_housekeep();
        for (i, &a) in nodes.iter().enumerate() { for (j, &b) in nodes.iter().enumerate() {
            if a != b && !sim.is_connected(a, b) {
                fail("C15", failing, format!("healthy mesh with (peer timeout, keepalive) = {:?} on a delivering network: at t={} node {} (timeout {}) has forgotten the reachable node {} (timeout {})", settings, t, i + 1, settings[i].0, j + 1, settings[j].0));
                return;
            }
        } }
        deliver!(sim, failing, "healthy mesh / restart scenario");
    }
}

// a node RESTARTS (new node object, same address, different advertised timeout) and reconnects while its old entry is still in the peer
// list of the other node: from then on the mesh is healthy again and nobody may forget anybody
fn restarted_peer(a_timeout: u32, b_before: u32, b_after: u32, failing: &mut usize) {
    let mut sim = TapSimulator::new();
    let a = sim.add_node(false, &cfg(Type::Tap, a_timeout, None));
    let b = sim.add_node(false, &cfg(Type::Tap, b_before, None));
    sim.connect(a, b);
    deliver!(sim, failing, "healthy mesh / restart scenario");
    if !sim.is_connected(a, b) || !sim.is_connected(b, a) { fail("C15", failing, format!("restart {}->{}: nodes do not connect", b_before, b_after)); return; }
    let mut t: Time = 0;
    // (wait until the handshake object lingering in A has closed, 60 s: while it lingers, A answers every ping of a restarted B with its
    // stored peng and B answers every peng with its stored ping - an endless exchange; observation recorded in DESIGN.md under C05)
    while t < 80 { t += 1; sim.set_time(t); sim.trigger_housekeep(); deliver!(sim, failing, "restart scenario"); }
    // restart B
    {
        let mut config = cfg(Type::Tap, b_after, None);
        MockSocket::set_nat(false);
        config.listen = format!("[::]:{}", b.port());
        config.crypto.password = Some("test123".to_string());
        let node = TestNode::new(&config, MockSocket::new(b), MockDevice::new(), None, None);
        sim.nodes.insert(b, node);
        sim.messages.clear();
    }
    sim.connect(b, a);
    deliver!(sim, failing, "healthy mesh / restart scenario");
    if !sim.is_connected(a, b) || !sim.is_connected(b, a) { fail("C15", failing, format!("restart {}->{}: the restarted node does not reconnect", b_before, b_after)); return; }
    let settle = 3 * a_timeout.max(b_before).max(b_after).min(1200) as Time;
    let end = t + 2 * settle;
    let from = t + settle;
    while t < end {
        t += 1;
        sim.set_time(t);
        sim.trigger_housekeep();
        if t >= from && (!sim.is_connected(a, b) || !sim.is_connected(b, a)) {
            fail("C15", failing, format!("node B (peer timeout {} s) restarts with peer timeout {} s and reconnects to A (peer timeout {} s) from the same address: at t={} on a delivering network {} has forgotten its healthy peer", b_before, b_after, a_timeout, t, if !sim.is_connected(b, a) { "B" } else { "A" }));
            return;
        }
        deliver!(sim, failing, "healthy mesh / restart scenario");
    }
}

// a node on which a periodic housekeeping job keeps FAILING (here: a beacon file that cannot be read - housekeep returns the error, the
// main loop logs it and carries on) is still a healthy peer: it must go on announcing itself, so nobody forgets it
fn failing_periodic_job(failing: &mut usize) {
    let mut sim = TapSimulator::new();
    let mut ca = cfg(Type::Tap, 300, None);
    ca.beacon_load = Some("/nonexistent/verif/beacon".to_string());
    ca.beacon_interval = 1;
    let a = sim.add_node(false, &ca);
    let b = sim.add_node(false, &cfg(Type::Tap, 300, None));
    sim.connect(a, b);
    deliver!(sim, failing, "failing periodic job scenario");
    if !sim.is_connected(a, b) || !sim.is_connected(b, a) { fail("C15", failing, "failing periodic job scenario: nodes do not connect".to_string()); return; }
    let hook = std::panic::take_hook();
    std::panic::set_hook(Box::new(|_| {}));
    let mut t: Time = 0;
    let mut bad = None;
    while t < 1000 {
        t += 1;
        sim.set_time(t);
        for addr in [a, b].iter() {
            // (the simulator's trigger asserts that the tick succeeded; a failing tick is what this scenario is about)
            let node = sim.nodes.get_mut(addr).unwrap();
            let _ = std::panic::catch_unwind(std::panic::AssertUnwindSafe(|| node.trigger_housekeep()));
            let node = sim.nodes.get_mut(addr).unwrap();
            while let Some((dst, data)) = node.socket().pop_outbound() { sim.messages.push_back((*addr, dst, data)); }
        }
        if !sim.is_connected(a, b) || !sim.is_connected(b, a) { bad = Some((t, !sim.is_connected(b, a))); break; }
        if !drain(&mut sim) { break; }
    }
    std::panic::set_hook(hook);
    if let Some((t, b_forgot)) = bad {
        fail("C15", failing, format!("node A has a periodic job that fails on every tick (unreadable beacon file); it is alive and the network delivers, yet at t={} {} has forgotten its healthy peer", t, if b_forgot { "B" } else { "A" }));
    }
}

fn silent_peer(own_timeout: u32, silent_timeout: u32, tap: bool, failing: &mut usize) {
    // A (under test), B (goes silent), C (witness)
    let mut sim: Simulator<Frame>;
    let mut simr: Simulator<Packet>;
    let what = if tap { "switch" } else { "router" };
    macro_rules! run { ($sim:ident, $ty:expr, $ca:expr, $cb:expr, $cc:expr, $to_b:expr, $from_b:expr) => {{
        let a = $sim.add_node(false, &Config { claims: $ca, ..cfg($ty, own_timeout, None) });
        let b = $sim.add_node(false, &Config { claims: $cb, ..cfg($ty, silent_timeout, None) });
        let c = $sim.add_node(false, &Config { claims: $cc, ..cfg($ty, own_timeout, None) });
        $sim.connect(a, b); $sim.connect(a, c); $sim.connect(b, c);
        deliver!($sim, failing, format!("{}: silent peer scenario", what));
        if !$sim.is_connected(a, b) || !$sim.is_connected(a, c) { fail("C15,C12,C13", failing, format!("{}: nodes do not connect", what)); return; }
        // B talks (A learns its address in switch mode), then leaves the network without a close message
        $sim.put_payload(b, $from_b);
        deliver!($sim, failing, format!("{}: silent peer scenario", what));
        while $sim.pop_payload(a).is_some() {}
        while $sim.pop_payload(c).is_some() {}
        let t0: Time = 10;
        $sim.set_time(t0);
        $sim.put_payload(b, $from_b);
        deliver!($sim, failing, format!("{}: silent peer scenario", what));
        $sim.nodes.remove(&b);
        let mut t = t0;
        let deadline = t0 + own_timeout as Time + 2;
        let end = deadline + 400;
        while t < end {
            t += 1;
            $sim.set_time(t);
            $sim.trigger_node_housekeep(a);
            $sim.trigger_node_housekeep(c);
            deliver!($sim, failing, format!("{}: silent peer scenario", what));
            if t >= deadline {
                if $sim.is_connected(a, b) {
                    fail("C15", failing, format!("{}: own peer timeout {} s, silent peer advertised {} s: at t={} ({} s after its last message) the silent peer is still a peer", what, own_timeout, silent_timeout, t, t - t0));
                    return;
                }
                if (t - deadline) % 7 == 0 {
                    // a frame / packet for B's address must not be sent to B any more
                    $sim.messages.clear();
                    $sim.put_payload(a, $to_b);
                    let big = |l: usize| l >= $to_b.len() + 8;
                    let to_b = $sim.messages.iter().filter(|m| m.1 == b && big(m.2.len())).count();
                    let to_c = $sim.messages.iter().filter(|m| m.1 == c && big(m.2.len())).count();
                    if to_b > 0 {
                        fail("C12,C13,C15", failing, format!("{}: own peer timeout {} s: at t={} ({} s after the silent peer's last message, it has been forgotten) a payload for its address is still sent to it ({} datagram(s))", what, own_timeout, t, t - t0, to_b));
                        return;
                    }
                    if tap && to_c != 1 {
                        fail("C12,C13,C15", failing, format!("{}: own peer timeout {} s: at t={} ({} s after the silent peer's last message, it has been forgotten) a frame for the address learned from it is not flooded to the remaining peer ({} datagrams): a route still points at the forgotten peer", what, own_timeout, t, t - t0, to_c));
                        return;
                    }
                    $sim.messages.clear();
                }
            }
        }
    }}; }
    if tap {
        sim = TapSimulator::new();
        let frame_to_b = { let mut f = vec![0xb, 0xb, 0xb, 0xb, 0xb, 0xb, 0xa, 0xa, 0xa, 0xa, 0xa, 0xa]; f.extend_from_slice(&[7u8; 60]); f };
        let frame_from_b = { let mut f = vec![0xa, 0xa, 0xa, 0xa, 0xa, 0xa, 0xb, 0xb, 0xb, 0xb, 0xb, 0xb]; f.extend_from_slice(&[8u8; 60]); f };
        run!(sim, Type::Tap, vec![], vec![], vec![], frame_to_b.clone(), frame_from_b.clone());
    } else {
        simr = TunSimulator::new();
        let mut to_b = vec![0x40u8, 0, 0, 0, 0, 0, 0, 0, 0, 0, 0, 0, 10, 0, 0, 1, 10, 0, 1, 1]; to_b.extend_from_slice(&[7u8; 60]);
        let mut from_b = vec![0x40u8, 0, 0, 0, 0, 0, 0, 0, 0, 0, 0, 0, 10, 0, 1, 1, 10, 0, 0, 1]; from_b.extend_from_slice(&[8u8; 60]);
        run!(simr, Type::Tun, vec!["10.0.0.1/32".to_string()], vec!["10.0.1.1/32".to_string()], vec!["10.0.2.1/32".to_string()], to_b.clone(), from_b.clone());
    }
}

#[test]
fn peers_time_out_when_silent_and_never_when_healthy() {
    let mut failing = 0usize;
    let _ = DEFAULT_PEER_TIMEOUT;
    for settings in [
        vec![(300u32, None), (60, None), (1000, None)],
        vec![(300, None), (60, Some(80))],
        vec![(120, None), (121, None), (65535, None)],
        vec![(300, Some(30)), (90, None), (600, Some(200)), (45, None)],
    ].iter() {
        let horizon = 3 * settings.iter().map(|s| s.0).max().unwrap().min(1200) as Time;
        healthy_mesh(settings, horizon, &mut failing);
    }
    for &(ta, b0, b1) in [(300u32, 300u32, 30u32), (300, 300, 59), (120, 60, 1000), (300, 1000, 45)].iter() {
        restarted_peer(ta, b0, b1, &mut failing);
    }
    failing_periodic_job(&mut failing);
    for &(own, silent) in [(60u32, 600u32), (300, 60), (120, 120), (200, 1000)].iter() {
        silent_peer(own, silent, true, &mut failing);
        silent_peer(own, silent, false, &mut failing);
    }
    assert_eq!(failing, 0);
}
