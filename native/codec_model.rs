// Native search driver for the node-information codec (properties C16 / C08, obligations codec::*):
// the real NodeInfo::decode / encode are compared with a reference decoder written from the wire format
// (the same format the Verus specification `sp_node` states) on
//   (a) encodings of generated messages (0..=20 peers, 0..=9 addresses per family, claims of every address length 0..=16),
//       also with unknown parts of 0..=1000 bytes inserted at every part boundary, truncated at every length, and with single
//       bytes substituted in tag / length positions, and
//   (b) random byte strings.
// A disagreement, a panic, or a round trip that does not give normalise(message) prints `FAILING-INPUT: ...`.
use super::*;
use crate::types::Address;
use std::panic;

struct Rng(u64);
impl Rng {
    fn next(&mut self) -> u64 { self.0 ^= self.0 << 13; self.0 ^= self.0 >> 7; self.0 ^= self.0 << 17; self.0 }
    fn below(&mut self, n: u64) -> u64 { (self.next() >> 11) % n }
    fn byte(&mut self) -> u8 { (self.next() >> 24) as u8 }
}

#[derive(Debug, PartialEq, Clone)]
struct RefPeer { node_id: Option<[u8; 16]>, addrs: Vec<SocketAddr> }
#[derive(Debug, PartialEq, Clone)]
struct RefInfo { node_id: [u8; 16], peers: Vec<RefPeer>, claims: Vec<(u8, Vec<u8>, u8)>, peer_timeout: Option<u16>, addrs: Vec<SocketAddr> }
#[derive(Debug, PartialEq)]
enum Parsed { Good(RefInfo), Bad, Unspecified }

fn ref_addr_list(s: &[u8], flags: u8) -> Option<(Vec<SocketAddr>, usize)> {
    let n4 = (flags & 0x07) as usize;
    let n6 = ((flags & 0x38) >> 3) as usize;
    let need = 18 * n6 + 6 * n4;
    if s.len() < need { return None; }
    let mut out = vec![];
    for k in 0..n6 {
        let r = &s[18 * k..18 * k + 18];
        let mut ip = [0u8; 16]; ip.copy_from_slice(&r[..16]);
        out.push(SocketAddr::V6(SocketAddrV6::new(Ipv6Addr::from(ip), u16::from_be_bytes([r[16], r[17]]), 0, 0)));
    }
    for k in 0..n4 {
        let r = &s[18 * n6 + 6 * k..18 * n6 + 6 * k + 6];
        out.push(SocketAddr::V4(SocketAddrV4::new(Ipv4Addr::new(r[0], r[1], r[2], r[3]), u16::from_be_bytes([r[4], r[5]]))));
    }
    Some((out, need))
}
fn ref_peers(mut s: &[u8]) -> Option<Vec<RefPeer>> {
    let mut out = vec![];
    while !s.is_empty() {
        let flags = s[0];
        let mut pos = 1;
        let mut node_id = None;
        if flags & 0x80 != 0 {
            if s.len() < 17 { return None; }
            let mut id = [0u8; 16]; id.copy_from_slice(&s[1..17]); node_id = Some(id); pos = 17;
        }
        let (addrs, n) = ref_addr_list(&s[pos..], flags)?;
        out.push(RefPeer { node_id, addrs });
        s = &s[pos + n..];
    }
    Some(out)
}
fn ref_claims(mut s: &[u8]) -> Option<Vec<(u8, Vec<u8>, u8)>> {
    let mut out = vec![];
    while !s.is_empty() {
        let len = s[0] as usize;
        if len > 16 || s.len() < len + 2 { return None; }
        out.push((s[0], s[1..1 + len].to_vec(), s[1 + len]));
        s = &s[len + 2..];
    }
    Some(out)
}
fn ref_decode(mut s: &[u8]) -> Parsed {
    let mut node_id = None; let mut peers = vec![]; let mut claims = vec![]; let mut peer_timeout = None; let mut addrs = vec![];
    loop {
        if s.is_empty() { return Parsed::Bad; }
        let tag = s[0];
        if tag == 0 { break; }
        if s.len() < 3 { return Parsed::Bad; }
        let len = u16::from_be_bytes([s[1], s[2]]) as usize;
        let avail = &s[3..];
        let body = if len >= avail.len() { avail } else { &avail[..len] };
        let complete = avail.len() >= len;
        match tag {
            1 => { if !complete { return Parsed::Bad; } match ref_peers(body) { Some(p) => peers = p, None => return Parsed::Bad } }
            2 => { if !complete { return Parsed::Bad; } match ref_claims(body) { Some(c) => claims = c, None => return Parsed::Bad } }
            3 => { if len != 2 { return Parsed::Unspecified; } if body.len() < 2 { return Parsed::Bad; } peer_timeout = Some(u16::from_be_bytes([body[0], body[1]])); }
            4 => { if len != 16 { return Parsed::Unspecified; } if body.len() < 16 { return Parsed::Bad; } let mut id = [0u8; 16]; id.copy_from_slice(&body[..16]); node_id = Some(id); }
            5 => {
                if len < 1 { return Parsed::Unspecified; }
                if body.is_empty() { return Parsed::Bad; }
                let need = 1 + 18 * (((body[0] & 0x38) >> 3) as usize) + 6 * ((body[0] & 7) as usize);
                if len != need { return Parsed::Unspecified; }
                if body.len() < len { return Parsed::Bad; }
                addrs = ref_addr_list(&body[1..], body[0]).unwrap().0;
            }
            _ => { if !complete { return Parsed::Bad; } }
        }
        s = &avail[len..];
    }
    match node_id { Some(node_id) => Parsed::Good(RefInfo { node_id, peers, claims, peer_timeout, addrs }), None => Parsed::Bad }
}

fn view(n: &NodeInfo) -> RefInfo {
    RefInfo {
        node_id: n.node_id,
        peers: n.peers.iter().map(|p| RefPeer { node_id: p.node_id, addrs: p.addrs.iter().cloned().collect() }).collect(),
        claims: n.claims.iter().map(|r| (r.base.len, r.base.data[..r.base.len as usize].to_vec(), r.prefix_len)).collect(),
        peer_timeout: n.peer_timeout,
        addrs: n.addrs.iter().cloned().collect(),
    }
}
fn normalise_addrs(l: &[SocketAddr]) -> Vec<SocketAddr> {
    let mut v6: Vec<SocketAddr> = l.iter().filter(|a| a.is_ipv6()).cloned().collect();
    let mut v4: Vec<SocketAddr> = l.iter().filter(|a| a.is_ipv4()).cloned().collect();
    v6.truncate(7); v4.truncate(7);
    v6.extend(v4); v6
}
fn normalise(r: &RefInfo) -> RefInfo {
    let mut n = r.clone();
    n.addrs = normalise_addrs(&r.addrs);
    for p in n.peers.iter_mut() { p.addrs = normalise_addrs(&p.addrs); }
    n
}
fn hex(b: &[u8]) -> String { let mut s = String::new(); for x in b.iter().take(400) { s.push_str(&format!("{:02x}", x)); } if b.len() > 400 { s.push_str("..."); } s }

/// a reader over the bytes that gives up (panics) when it is asked again and again at the end of input: a decoder that does not
/// terminate shows as a failure instead of a stuck run
struct Guarded<'a> { inner: Cursor<&'a [u8]>, empty_reads: usize }
impl<'a> Read for Guarded<'a> {
    fn read(&mut self, buf: &mut [u8]) -> io::Result<usize> {
        let n = self.inner.read(buf)?;
        if n == 0 && !buf.is_empty() { self.empty_reads += 1; if self.empty_reads > 100_000 { panic!("decoder does not terminate: it keeps reading at the end of the input"); } }
        Ok(n)
    }
}
fn real_decode(bytes: &[u8]) -> Result<Result<RefInfo, ()>, ()> {
    let b = bytes.to_vec();
    panic::catch_unwind(move || match NodeInfo::decode(Guarded { inner: Cursor::new(&b[..]), empty_reads: 0 }) { Ok(n) => Ok(view(&n)), Err(_) => Err(()) }).map_err(|_| ())
}

// every check of this driver is tagged with the properties whose statement it is taken from; when the driver is consulted for ONE
// property (VERIF_PROPERTY, set by ./check) only the failures tagged with it count
fn counts(tags: &str) -> bool {
    match std::env::var("VERIF_PROPERTY") { Ok(p) if !p.is_empty() => tags.split(',').any(|t| t == p), _ => true }
}
fn compare(bytes: &[u8], what: &str, failing: &mut usize) {
    let want = ref_decode(bytes);
    let got = real_decode(bytes);
    let bad = match (&want, &got) {
        (_, Err(())) => Some("panic, or the decoder does not terminate".to_string()),
        (Parsed::Unspecified, _) => None,
        (Parsed::Bad, Ok(Err(()))) => None,
        (Parsed::Good(w), Ok(Ok(g))) if w == g => None,
        (w, Ok(g)) => Some(format!("format says {:?}, NodeInfo::decode gives {:?}", w, g)),
    };
    if let Some(b) = bad {
        // a crash / hang concerns C08 as well; a wrong value only the codec property
        if !counts(if matches!(got, Err(())) { "C08,C16" } else { "C16,C12,C14" }) { return; }
        *failing += 1;
        if *failing <= 3 { println!("FAILING-INPUT: {} ({} bytes) {}: {}", what, bytes.len(), hex(bytes), &b[..b.len().min(600)]); }
    }
}
fn gen_addr(r: &mut Rng, v6: bool) -> SocketAddr {
    if v6 { let mut ip = [0u8; 16]; for b in ip.iter_mut() { *b = r.byte(); } SocketAddr::V6(SocketAddrV6::new(Ipv6Addr::from(ip), r.next() as u16, 0, 0)) }
    else { SocketAddr::V4(SocketAddrV4::new(Ipv4Addr::new(r.byte(), r.byte(), r.byte(), r.byte()), r.next() as u16)) }
}
fn gen_addrs(r: &mut Rng) -> AddrList {
    let n4 = r.below(10); let n6 = r.below(10);
    let mut l: Vec<SocketAddr> = vec![];
    for _ in 0..n4 { l.push(gen_addr(r, false)); }
    for _ in 0..n6 { l.push(gen_addr(r, true)); }
    for i in (1..l.len()).rev() { let j = r.below(i as u64 + 1) as usize; l.swap(i, j); }
    l.into_iter().collect()
}
fn gen_info(r: &mut Rng) -> NodeInfo {
    let mut node_id = [0u8; 16]; for b in node_id.iter_mut() { *b = r.byte(); }
    let npeers = r.below(21);
    let peers = (0..npeers).map(|_| { let mut id = [0u8; 16]; for b in id.iter_mut() { *b = r.byte(); }
        PeerInfo { node_id: if r.below(3) > 0 { Some(id) } else { None }, addrs: gen_addrs(r) } }).collect();
    let nclaims = r.below(8);
    let claims = (0..nclaims).map(|_| { let len = r.below(17) as u8; let mut data = [0u8; 16]; for b in data.iter_mut().take(len as usize) { *b = r.byte(); }
        Range { base: Address { data, len }, prefix_len: r.byte() } }).collect();
    NodeInfo { node_id, peers, claims, peer_timeout: if r.below(2) == 0 { Some(r.next() as u16) } else { None }, addrs: gen_addrs(r) }
}
fn encode(n: &NodeInfo) -> Vec<u8> { let mut b = MsgBuffer::new(0); n.encode(&mut b); b.message().to_vec() }
fn part_boundaries(bytes: &[u8]) -> Vec<usize> {
    let mut v = vec![0]; let mut p = 0;
    while p < bytes.len() && bytes[p] != 0 { p += 3 + u16::from_be_bytes([bytes[p + 1], bytes[p + 2]]) as usize; v.push(p); }
    v
}

#[test]
fn node_info_codec_matches_the_format() {
    let hook = panic::take_hook();
    panic::set_hook(Box::new(|_| {}));
    let mut failing = 0usize;
    let mut r = Rng(0x9e3779b97f4a7c15);
    for round in 0..120 {
        let info = gen_info(&mut r);
        let bytes = encode(&info);
        // round trip: decode(encode(x)) == normalise(x)
        match real_decode(&bytes) {
            Ok(Ok(g)) if g == normalise(&view(&info)) => {}
            other => if counts(if matches!(other, Err(())) { "C08,C16" } else { "C16,C12,C14" }) { failing += 1; if failing <= 3 { println!("FAILING-INPUT: round trip of {:?}: encoded as {} decodes to {:?}, expected {:?}", view(&info), hex(&bytes), other, normalise(&view(&info))); } }
        }
        compare(&bytes, "genuine encoding", &mut failing);
        // unknown parts at every part boundary
        for &at in part_boundaries(&bytes).iter() {
            for &len in [0usize, 1, 2, 255, 256, 257, 300, 1000].iter() {
                let tag = 6 + r.below(250) as u8;
                let mut m = bytes[..at].to_vec(); m.push(tag); m.extend_from_slice(&(len as u16).to_be_bytes());
                let fill = if r.below(2) == 0 { 0 } else { r.byte() };
                m.extend((0..len).map(|i| if fill == 0 { 0 } else { fill.wrapping_add(i as u8) }));
                m.extend_from_slice(&bytes[at..]);
                compare(&m, "genuine encoding with an unknown part inserted", &mut failing);
            }
        }
        if round < 30 {
            for cut in 0..bytes.len() { compare(&bytes[..cut], "truncated encoding", &mut failing); }
            // a 64 KiB tail of stale bytes behind the message, as the receive buffer presents it
            let mut m = bytes.clone(); m.extend((0..65000 - bytes.len().min(65000)).map(|i| (i * 7) as u8)); compare(&m, "encoding followed by stale bytes", &mut failing);
        }
        for _ in 0..60 {
            let mut m = bytes.clone(); let i = r.below(m.len() as u64) as usize; m[i] = r.byte();
            compare(&m, "encoding with one byte substituted", &mut failing);
        }
        for &b in part_boundaries(&bytes).iter() {
            for d in 0..3 { if b + d < bytes.len() { for v in [0u8, 1, 2, 3, 4, 5, 6, 0x7f, 0xff].iter() { let mut m = bytes.clone(); m[b + d] = *v; compare(&m, "encoding with a tag/length byte substituted", &mut failing); } } }
        }
    }
    for _ in 0..20000 {
        let len = r.below(64) as usize;
        let mut m: Vec<u8> = (0..len).map(|_| r.byte()).collect();
        if len > 0 && r.below(2) == 0 { m[0] = 1 + r.below(6) as u8; }
        if len > 2 && r.below(2) == 0 { m[1] = 0; m[2] = r.below(40) as u8; }
        compare(&m, "random bytes", &mut failing);
    }
    for _ in 0..300 {
        let len = r.below(2048) as usize;
        let m: Vec<u8> = (0..len).map(|_| r.byte()).collect();
        compare(&m, "random bytes", &mut failing);
    }
    panic::set_hook(hook);
    assert_eq!(failing, 0);
}
