// Native search driver for what a node does with a PEER LIST it receives (properties C14 / C10, mechanism "dial every advertised peer that
// is not yet connected and is not oneself; adopt addresses listed under the own node id" - GenericCloud::connect_to_peers; obligations
// peers::GenericCloud::{connect_sock, adopt_own_addresses_block}). Attached below src/cloud.rs (connect_to_peers is private).
// Two real nodes A and X complete a real handshake (X is a peer of A under address x1); then A is handed peer lists and its socket is
// inspected. Bound: the 8 entry shapes below x entries alone and in lists of two.
//   - an entry listing X's NODE ID under another address x2 (multi-homed / dual-stack / NAT): NOT dialled - one node, one peer entry
//     (a second entry makes every flooded frame go to X twice);
//   - an entry containing an address that is already a peer, whatever its node id: not dialled;
//   - an entry under A's OWN node id: its addresses are adopted as own addresses and not dialled;
//   - an entry for an unknown node (with or without node id): every address of it is dialled exactly once; not again while pending.
use super::*;
use crate::{config::Config, device::MockDevice, net::MockSocket, payload::Frame, util::MockTimeSource};

type Node = GenericCloud<MockDevice, Frame, MockSocket, MockTimeSource>;

fn counts(tags: &str) -> bool {
    match std::env::var("VERIF_PROPERTY") { Ok(p) if !p.is_empty() => tags.split(',').any(|t| t == p), _ => true }
}
fn fail(tags: &str, failing: &mut usize, msg: String) {
    if !counts(tags) { return; }
    *failing += 1;
    if *failing <= 3 { println!("FAILING-INPUT: {}", msg); }
}
fn addr(port: u16) -> SocketAddr { format!("[::]:{}", port).parse::<SocketAddr>().unwrap() }
fn mk(a: SocketAddr) -> Node {
    let mut config = Config { listen: format!("{}", a), ..Config::default() };
    config.crypto.password = Some("test123".to_string());
    MockSocket::set_nat(false);
    Node::new(&config, MockSocket::new(a), MockDevice::new(), None, None)
}
fn pump(a: &mut Node, aa: SocketAddr, x: &mut Node, xa: SocketAddr) {
    for _ in 0..200 {
        let mut moved = false;
        while let Some((dst, data)) = a.socket().pop_outbound() { if dst == xa { if x.socket().put_inbound(aa, data) { x.trigger_socket_event(); } moved = true; } }
        while let Some((dst, data)) = x.socket().pop_outbound() { if dst == aa { if a.socket().put_inbound(xa, data) { a.trigger_socket_event(); } moved = true; } }
        if !moved { break; }
    }
}
fn dialled(a: &mut Node) -> Vec<SocketAddr> { let mut v = vec![]; while let Some((dst, _)) = a.socket().pop_outbound() { v.push(dst); } v }

#[test]
fn peer_lists_lead_to_the_right_dials() {
    let mut failing = 0usize;
    MockTimeSource::set_time(0);
    let (aa, x1, x2, u1, u2, o2) = (addr(1), addr(2), addr(102), addr(7), addr(8), addr(101));
    for shape in 0..8usize { for &second in [false, true].iter() {
        let mut a = mk(aa);
        let mut x = mk(x1);
        a.connect(x1).unwrap();
        pump(&mut a, aa, &mut x, x1);
        if !a.is_connected(&x1) { fail("C14,C10", &mut failing, "A and X do not connect".into()); return; }
        let _ = dialled(&mut a);
        let xid = a.peers.get(&x1).unwrap().node_id;
        let own = a.node_id;
        let other: NodeId = [0x77; 16];
        let (entry, what, expect, tags): (PeerInfo, &str, Vec<SocketAddr>, &str) = match shape {
            0 => (PeerInfo { node_id: Some(xid), addrs: smallvec![x2] }, "the node id of the connected peer X under ANOTHER address", vec![], "C14,C10"),
            1 => (PeerInfo { node_id: Some(xid), addrs: smallvec![x2, x1] }, "the connected peer X with a second address first", vec![], "C14,C10"),
            2 => (PeerInfo { node_id: Some(other), addrs: smallvec![x1, u1] }, "a foreign node id, one of whose addresses is already a peer", vec![], "C14,C10"),
            3 => (PeerInfo { node_id: None, addrs: smallvec![u1, x1] }, "no node id, one of whose addresses is already a peer", vec![], "C14,C10"),
            4 => (PeerInfo { node_id: Some(own), addrs: smallvec![o2] }, "A's OWN node id under an address A does not know yet", vec![], "C14"),
            5 => (PeerInfo { node_id: Some(own), addrs: smallvec![o2, aa] }, "A's OWN node id with a new and a known own address", vec![], "C14"),
            6 => (PeerInfo { node_id: Some(other), addrs: smallvec![u1, u2] }, "an unknown node with two addresses", vec![u1, u2], "C14"),
            _ => (PeerInfo { node_id: None, addrs: smallvec![u1] }, "an unknown node without node id", vec![u1], "C14"),
        };
        let mut list = vec![entry];
        let mut expect = expect;
        if second { list.insert(0, PeerInfo { node_id: Some([0x55; 16]), addrs: smallvec![addr(9)] }); expect.insert(0, addr(9)); }
        let desc = format!("peer list entry with {}{}", what, if second { " (behind an entry for another unknown node)" } else { "" });
        if a.connect_to_peers(&list).is_err() { fail(tags, &mut failing, format!("{}: connect_to_peers fails", desc)); continue; }
        let mut d = dialled(&mut a);
        d.sort(); let mut e = expect.clone(); e.sort();
        if d != e { fail(tags, &mut failing, format!("{}: A dials {:?}, expected {:?}", desc, d, e)); continue; }
        if shape == 4 || shape == 5 { if !a.own_addresses.contains(&o2) { fail("C14", &mut failing, format!("{}: the address is not adopted as own address (own addresses {:?})", desc, a.own_addresses)); } }
        if a.peers.values().filter(|p| p.node_id == xid).count() != 1 { fail("C14,C10", &mut failing, format!("{}: A holds {} peer entries for the node X", desc, a.peers.values().filter(|p| p.node_id == xid).count())); }
        // the same list again while the dials are pending: nothing more is sent
        let _ = a.connect_to_peers(&list);
        let again = dialled(&mut a);
        if !again.is_empty() { fail("C14", &mut failing, format!("{}: handed the same list again, A dials {:?} again although those handshakes are pending", desc, again)); }
    } }
    // ---- (C14, "including nodes behind address-filtering NATs that dial each other") the peer list A hands to others must contain, for
    // its peer X, the address A SEES X at - the only one that reaches X through an address translator - however many addresses X
    // advertises itself (the peer-list encoder keeps at most 7 addresses per family). Mechanism: GenericCloud::update_peer_info keeps the
    // seen address among the first entries (obligation peers::GenericCloud::update_peer_info) + NodeInfo encode / decode.
    for n_adv in 0..12usize { for &with_seen in [false, true].iter() {
        let mut a = mk(aa);
        let mut x = mk(x1);
        a.connect(x1).unwrap();
        pump(&mut a, aa, &mut x, x1);
        if !a.is_connected(&x1) { fail("C14", &mut failing, "A and X do not connect".into()); return; }
        let _ = dialled(&mut a);
        let xid = a.peers.get(&x1).unwrap().node_id;
        let mut adv: AddrList = smallvec![];
        for i in 0..n_adv { adv.push(addr(2000 + i as u16)); }
        if with_seen && n_adv > 0 { let at = n_adv - 1; adv[at] = x1; }
        let info = NodeInfo { node_id: xid, peers: smallvec![], claims: smallvec![], peer_timeout: None, addrs: adv.clone() };
        if a.update_peer_info(x1, Some(info)).is_err() { fail("C14", &mut failing, format!("node information of X with {} advertised addresses: update_peer_info fails", n_adv)); continue; }
        let mut buf = MsgBuffer::new(100);
        a.create_node_info().encode(&mut buf);
        let listed = match NodeInfo::decode(Cursor::new(buf.message())) { Ok(i) => i, Err(e) => { fail("C14", &mut failing, format!("A's own node information does not decode: {:?}", e)); continue; } };
        let ok = listed.peers.iter().any(|p| p.node_id == Some(xid) && p.addrs.contains(&x1));
        if !ok { fail("C14", &mut failing, format!("X advertises {} addresses {:?} and is seen by A at {}: the peer list A sends lists X as {:?} - without the address A sees it at (a node behind an address translator is told only addresses that do not reach X)", n_adv, adv, x1, listed.peers)); }
    } }
    assert_eq!(failing, 0);
}
