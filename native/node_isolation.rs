// Native search driver at node level for forwarding isolation and next-hop selection (properties C10 / C13 / C02 / C11, obligations
// cloud::GenericCloud::* and table::ClaimTable::{cache, lookup}): real nodes on the in-tree simulator (attached below
// src/tests/common.rs), full meshes of 2..=4 nodes for EVERY mode (normal, hub, switch, router) on BOTH device types, time frozen (no periodic traffic), 200 random frames
// per mesh with a reference model of who is SELECTED for a frame written from the property text:
//   switch: the peer the destination address was last learned from (a frame with that SOURCE arrived from it), else every peer;
//   hub: every peer;   router: the peer claiming the longest matching prefix, else nobody.
// Per step (conservation): datagrams caused by an interface read = selected peers, one each; every selected node writes the frame
// byte-identical exactly once, nobody else writes anything; a received payload causes NO datagram (no relaying); the cleartext of the
// frame does not appear on the wire. Every 10th step a captured sealed datagram is replayed from an unknown address, reflected to its
// own sender and injected into another connection, and random bytes arrive from an unknown address: nothing reaches an interface,
// no peer appears.
use super::*;
use crate::types::Mode;

struct Rng(u64);
impl Rng {
    fn next(&mut self) -> u64 { self.0 ^= self.0 << 13; self.0 ^= self.0 >> 7; self.0 ^= self.0 << 17; self.0 }
    fn below(&mut self, n: u64) -> u64 { (self.next() >> 11) % n }
}


// every check of this driver is tagged with the properties whose statement it is taken from; when the driver is consulted for ONE
// property (VERIF_PROPERTY, set by ./check) only the failures tagged with it count
fn counts(tags: &str) -> bool {
    match std::env::var("VERIF_PROPERTY") { Ok(p) if !p.is_empty() => tags.split(',').any(|t| t == p), _ => true }
}
fn fail(tags: &str, failing: &mut usize, msg: String) {
    if !counts(tags) { return; }
    *failing += 1;
    if *failing <= 3 { println!("FAILING-INPUT: {}", msg); }
}

fn contains(h: &[u8], n: &[u8]) -> bool { h.windows(n.len()).any(|w| w == n) }

#[derive(Clone, Copy, PartialEq, Debug)]
enum Kind { Switch, Hub, Router }
// the documented mode table: normal = switch on tap / router on tun; hub floods and never learns; switch learns; router uses claims only
fn behaviour(mode: Mode, tap: bool) -> Kind {
    match mode { Mode::Normal => if tap { Kind::Switch } else { Kind::Router }, Mode::Hub => Kind::Hub, Mode::Switch => Kind::Switch, Mode::Router => Kind::Router }
}

fn mac(j: usize) -> [u8; 6] { [2, 0, 0, 0, 0, j as u8 + 1] }

fn mk_frame(kind: Kind, tap: bool, r: &mut Rng, from: usize, dest: usize, n: usize, marker: u64) -> Vec<u8> {
    // dest: 0..n = node index, n = unknown unicast address, n+1 = broadcast (switch / hub) / second unknown (router)
    let mut f;
    if !tap {
        // router: any host of the claimed /24; learning modes: one fixed host per node
        let host = |r: &mut Rng| if kind == Kind::Router { 1 + r.below(200) as u8 } else { 1 };
        f = vec![0x45u8, 0, 0, 0, 0, 0, 0, 0, 64, 17, 0, 0];
        let h = host(r);
        f.extend_from_slice(&[10, 0, from as u8, h]);
        let h = host(r);
        if dest < n { f.extend_from_slice(&[10, 0, dest as u8, h]); } else { f.extend_from_slice(&[10, 9, dest as u8, 7]); }
    } else {
        let d = if dest < n { mac(dest) } else if dest == n { [2, 0, 0, 0, 9, 9] } else { [0xff; 6] };
        f = d.to_vec();
        f.extend_from_slice(&mac(from));
        // every third frame is PRIORITY-tagged (802.1Q tag with VLAN id 0 and a random PCP / DEI nibble): it counts as untagged
        if r.below(3) == 0 { f.extend_from_slice(&[0x81, 0x00, (r.below(16) as u8) << 4, 0x00]); }
        f.extend_from_slice(&[0x08, 0x00]);
    }
    // 24 distinctive payload bytes, then filler of random length
    for k in 0..3u64 { f.extend_from_slice(&(marker.wrapping_mul(0x9e37_79b9_7f4a_7c15).wrapping_add(k)).to_be_bytes()); }
    let extra = r.below(120) as usize;
    f.extend((0..extra).map(|i| (i as u8) ^ (marker as u8)));
    f
}

fn mesh(mode: Mode, tap: bool, plain: bool, n: usize, steps: usize, seed: u64, failing: &mut usize) {
    let kind = behaviour(mode, tap);
    let mut r = Rng(seed);
    macro_rules! body { ($sim:ident) => {{
        let mut configs: Vec<Config> = vec![];
        let addrs: Vec<SocketAddr> = (0..n).map(|j| {
            let mut c = Config::default();
            c.device_type = if tap { Type::Tap } else { Type::Tun };
            c.mode = mode;
            c.auto_claim = false;
            if plain { c.crypto.algorithms = vec!["plain".to_string()]; }
            if kind == Kind::Router { c.claims = vec![if tap { format!("02:00:00:00:00:{:02x}/48", j + 1) } else { format!("10.0.{}.0/24", j) }]; }
            configs.push(c.clone());
            $sim.add_node(false, &c)
        }).collect();
        // the first handshake datagram (ping) of every dialling node is recorded, as an observer on the wire can
        let mut pings: Vec<(SocketAddr, SocketAddr, Vec<u8>)> = vec![];
        for i in 0..n { for j in i + 1..n { $sim.connect(addrs[i], addrs[j]); if let Some(m) = $sim.messages.back() { pings.push(m.clone()); } } }
        $sim.simulate_all_messages();
        for i in 0..n { for j in 0..n { if i != j && !$sim.is_connected(addrs[i], addrs[j]) { fail("C10,C13,C11,C02", failing, format!("mode {} on {} ({:?}), {} nodes: nodes do not connect", mode, if tap { "tap" } else { "tun" }, kind, n)); return; } } }
        for a in &addrs { while $sim.pop_payload(*a).is_some() {} }
        // who is selected: C10 always; the learned next hop and the mode table are C13's, the claimed next hop is C11's
        let sel_tags = match kind { Kind::Switch => "C10,C13", Kind::Hub => "C10,C13", Kind::Router => "C10,C11,C13" };
        let what = format!("mode `{}` on a {} device (documented behaviour: {:?}), {}mesh of {} nodes", mode, if tap { "tap" } else { "tun" }, kind, if plain { "PLAIN (everybody allows unencrypted) " } else { "" }, n);
        // reference model (switch): learned[i][source node] = peer it was last heard from
        let mut learned: Vec<Vec<Option<usize>>> = vec![vec![None; n]; n];
        let mut captured: Vec<(SocketAddr, SocketAddr, Vec<u8>)> = vec![];
        for step in 0..steps {
            let from = r.below(n as u64) as usize;
            let dest = r.below(n as u64 + 2) as usize;
            if dest == from { continue; }
            let frame = mk_frame(kind, tap, &mut r, from, dest, n, seed ^ (step as u64 + 1));
            let selected: Vec<usize> = match kind {
                Kind::Hub => (0..n).filter(|j| *j != from).collect(),
                Kind::Switch => if dest < n { match learned[from][dest] { Some(p) => vec![p], None => (0..n).filter(|j| *j != from).collect() } } else { (0..n).filter(|j| *j != from).collect() },
                Kind::Router => if dest < n { vec![dest] } else { vec![] },
            };
            let desc = format!("{}, step {}: a {}-byte frame read by node {} for {}", what, step, frame.len(), from, if dest < n { format!("the address of node {}", dest) } else if dest == n { "an unknown address".to_string() } else { "broadcast / unclaimed".to_string() });
            $sim.messages.clear();
            $sim.put_payload(addrs[from], frame.clone());
            let sent: Vec<(SocketAddr, SocketAddr, Vec<u8>)> = $sim.messages.iter().cloned().collect();
            let mut to: Vec<usize> = sent.iter().filter_map(|m| addrs.iter().position(|a| *a == m.1)).collect();
            to.sort();
            if sent.iter().any(|m| m.0 != addrs[from]) || to != selected || to.len() != sent.len() {
                fail(sel_tags, failing, format!("{}: selected peers {:?}, but datagrams go to nodes {:?} ({} datagram(s))", desc, selected, to, sent.len()));
                return;
            }
            for m in &sent {
                if !plain && contains(&m.2, &frame[frame.len().min(20)..frame.len().min(20) + 16]) { fail("C02", failing, format!("{}: the cleartext of the frame appears on the wire ({}-byte datagram) although plain mode is off", desc, m.2.len())); return; }
                if captured.len() < 64 { captured.push(m.clone()); }
            }
            // deliver one by one: exactly one interface write, byte-identical, and NO datagram in consequence
            while !$sim.messages.is_empty() {
                let (_, dst, _) = $sim.messages.front().cloned().unwrap();
                let before = $sim.messages.len();
                $sim.simulate_next_message();
                if $sim.messages.len() != before - 1 {
                    fail("C10", failing, format!("{}: node {} emits {} datagram(s) on RECEIVING the payload (relaying / amplification)", desc, addrs.iter().position(|a| *a == dst).unwrap(), $sim.messages.len() + 1 - before));
                    return;
                }
            }
            for j in 0..n {
                let mut got = vec![];
                while let Some(p) = $sim.pop_payload(addrs[j]) { got.push(p); }
                let want = if selected.contains(&j) { 1 } else { 0 };
                if got.len() != want { fail(sel_tags, failing, format!("{}: node {} writes {} frame(s) to its interface, expected {}", desc, j, got.len(), want)); return; }
                if want == 1 && got[0] != frame { fail("C02,C10", failing, format!("{}: node {} writes a frame that differs from what node {} read ({} vs {} bytes)", desc, j, from, got[0].len(), frame.len())); return; }
                if want == 1 && kind == Kind::Switch { learned[j][from] = Some(from); }
            }
            if !plain && step % 10 == 9 && !captured.is_empty() {
                let (csrc, cdst, cdata) = captured[r.below(captured.len() as u64) as usize].clone();
                let stranger: SocketAddr = "[::]:999".parse().unwrap();
                let third = addrs.iter().copied().find(|a| *a != csrc && *a != cdst);
                let rnd: Vec<u8> = (0..r.below(200)).map(|_| (r.next() >> 24) as u8).collect();
                let mut cases: Vec<(&str, &str, SocketAddr, SocketAddr, Vec<u8>)> = vec![
                    ("a captured sealed datagram replayed from an unknown address", "C10,C02", stranger, cdst, cdata.clone()),
                    ("a sealed datagram reflected back to its own sender", "C02,C04", cdst, csrc, cdata.clone()),
                    ("random bytes from an unknown address", "C10", stranger, cdst, rnd),
                ];
                if let Some(t) = third { cases.push(("a sealed datagram of one connection injected into another", "C02", csrc, t, cdata.clone())); }
                // cleartext behind the data type byte: (a) from an address this node is DIALLING (handshake pending, no answer yet),
                // (b) from an established peer's address right after an observer replayed that peer's recorded ping from it
                let mut clear = vec![0u8];
                clear.extend_from_slice(&mk_frame(kind, tap, &mut r, 1 % n, 0, n, 0xC1EA));
                let dead: SocketAddr = "[::]:777".parse().unwrap();
                let _ = $sim.nodes.get_mut(&addrs[0]).unwrap().connect(dead);
                while $sim.nodes.get_mut(&addrs[0]).unwrap().socket().pop_outbound().is_some() {}
                cases.push(("a CLEARTEXT data datagram from an address whose handshake is still pending", "C02,C01,C10", dead, addrs[0], clear.clone()));
                if let Some(p) = pings.iter().find(|p| p.1 == cdst || p.0 == csrc) {
                    cases.push(("(replay of a recorded ping of an established peer from its address)", "C02,C10", p.0, p.1, p.2.clone()));
                    cases.push(("a CLEARTEXT data datagram from an established peer's address after its recorded ping was replayed", "C02,C01", p.0, p.1, clear.clone()));
                }
                for (name, tags, s, d, data) in cases {
                    $sim.messages.clear();
                    $sim.messages.push_back((s, d, data));
                    $sim.simulate_all_messages();
                    for j in 0..n { if let Some(p) = $sim.pop_payload(addrs[j]) { fail(tags, failing, format!("{}, step {}: {} makes node {} write {} bytes to its interface", what, step, name, j, p.len())); return; } }
                    if $sim.is_connected(d, stranger) { fail("C01,C10", failing, format!("{}, step {}: {} creates a peer", what, step, name)); return; }
                }
            }
        }
        // a node RESTARTS (new node object, same address and configuration) and reconnects: a datagram sealed for the PREVIOUS connection
        // is not delivered any more, and what the restarted node sends is delivered ("sealed for a different connection is dropped")
        if !plain && n >= 2 {
            if let Some(old) = captured.iter().find(|m| m.0 == addrs[1] && m.1 == addrs[0]).cloned() {
                for t in 1..=80 { $sim.set_time(t); $sim.trigger_housekeep(); $sim.simulate_all_messages(); }
                for a in &addrs { while $sim.pop_payload(*a).is_some() {} }
                {
                    let mut c = configs[1].clone();
                    MockSocket::set_nat(false);
                    c.listen = format!("[::]:{}", addrs[1].port());
                    if c.crypto.password.is_none() && c.crypto.private_key.is_none() { c.crypto.password = Some("test123".to_string()); }
                    let node = TestNode::new(&c, MockSocket::new(addrs[1]), MockDevice::new(), None, None);
                    $sim.nodes.insert(addrs[1], node);
                    $sim.messages.clear();
                }
                $sim.connect(addrs[1], addrs[0]);
                $sim.simulate_all_messages();
                if !$sim.is_connected(addrs[0], addrs[1]) || !$sim.is_connected(addrs[1], addrs[0]) { fail("C02,C15", failing, format!("{}: node 1 restarts and dials node 0 again: they do not reconnect", what)); return; }
                for a in &addrs { while $sim.pop_payload(*a).is_some() {} }
                $sim.messages.clear();
                $sim.messages.push_back(old.clone());
                $sim.simulate_all_messages();
                if let Some(p) = $sim.pop_payload(addrs[0]) { fail("C02", failing, format!("{}: after node 1 restarted and re-handshook, a datagram sealed for the PREVIOUS connection makes node 0 write {} bytes to its interface", what, p.len())); return; }
                let frame = mk_frame(kind, tap, &mut r, 1, 0, n, 0xAF7E_4);
                $sim.messages.clear();
                $sim.put_payload(addrs[1], frame.clone());
                $sim.simulate_all_messages();
                let got = $sim.pop_payload(addrs[0]);
                if got.as_ref() != Some(&frame) { fail("C02,C10", failing, format!("{}: after node 1 restarted and re-handshook, a frame it reads for node 0 is not delivered byte-identical to node 0 (got {:?} bytes)", what, got.map(|g| g.len()))); return; }
                $sim.set_time(0);
            }
        }
    }}; }
    if !tap { let mut sim = TunSimulator::new(); body!(sim); } else { let mut sim = TapSimulator::new(); body!(sim); }
}

#[test]
fn frames_go_exactly_to_the_selected_peers_once_and_are_never_relayed() {
    let mut failing = 0usize;
    for (mi, mode) in [Mode::Normal, Mode::Hub, Mode::Switch, Mode::Router].iter().enumerate() {
        for &tap in [true, false].iter() {
            for n in 2..=4usize {
                mesh(*mode, tap, false, n, 200, 0x1234_5678 + n as u64 * 77 + mi as u64 * 13 + tap as u64, &mut failing);
            }
            // the same with unencrypted sessions (everybody allows plain): selection and conservation do not depend on the cipher
            mesh(*mode, tap, true, 3, 120, 0x0bad_cafe + mi as u64 * 13 + tap as u64, &mut failing);
        }
    }
    assert_eq!(failing, 0);
}
