// Native refutation/replay driver for the table unit (properties C11, C12, C13): runs the real ClaimTable against a
// reference model written from the property statements, over all operation sequences of length <= 3 and seeded random
// sequences of length 40, on 2 peers x 5 nested/overlapping ranges x 6 probe addresses (IPv4), and - length <= 2 exhaustive, random to 40 -
// on an IPv6 and a MAC universe with nested prefixes of 24..128 bits.
// It prints `FAILING-INPUT: <history>` for the first histories on which the real table deviates.
use super::*;
use crate::util::MockTimeSource;
use std::collections::HashMap as StdMap;
use std::net::ToSocketAddrs;

const CACHE_T: i64 = 10;
const CLAIM_T: i64 = 30;

fn a4(a: u8, b: u8, c: u8, d: u8) -> Address { let mut data = [0u8; 16]; data[0] = a; data[1] = b; data[2] = c; data[3] = d; Address { data, len: 4 } }
static UNIVERSE: std::sync::atomic::AtomicUsize = std::sync::atomic::AtomicUsize::new(0);
fn an(bytes: &[u8]) -> Address { let mut data = [0u8; 16]; data[..bytes.len()].copy_from_slice(bytes); Address { data, len: bytes.len() as u8 } }
fn ranges() -> Vec<Range> {
    match UNIVERSE.load(std::sync::atomic::Ordering::SeqCst) {
        // IPv6: nested /32 < /48 < /64 < /128 and a disjoint /8 (prefixes of 32 bits and more are ordinary here)
        1 => return vec![
            Range { base: an(&[0x20, 1, 0xd, 0xb8, 0, 0, 0, 0, 0, 0, 0, 0, 0, 0, 0, 0]), prefix_len: 32 }, Range { base: an(&[0x20, 1, 0xd, 0xb8, 0, 1, 0, 0, 0, 0, 0, 0, 0, 0, 0, 0]), prefix_len: 48 },
            Range { base: an(&[0x20, 1, 0xd, 0xb8, 0, 1, 0, 1, 0, 0, 0, 0, 0, 0, 0, 0]), prefix_len: 64 }, Range { base: an(&[0x20, 1, 0xd, 0xb8, 0, 1, 0, 1, 0, 0, 0, 0, 0, 0, 0, 1]), prefix_len: 128 },
            Range { base: an(&[0xfc, 0, 0, 0, 0, 0, 0, 0, 0, 0, 0, 0, 0, 0, 0, 0]), prefix_len: 8 },
        ],
        // MAC addresses: /24 (vendor) < /32 < /40 < /48 and a disjoint /8
        2 => return vec![
            Range { base: an(&[2, 0, 0, 0, 0, 0]), prefix_len: 24 }, Range { base: an(&[2, 0, 0, 1, 0, 0]), prefix_len: 32 },
            Range { base: an(&[2, 0, 0, 1, 1, 0]), prefix_len: 40 }, Range { base: an(&[2, 0, 0, 1, 1, 1]), prefix_len: 48 },
            Range { base: an(&[6, 0, 0, 0, 0, 0]), prefix_len: 8 },
        ],
        _ => {}
    }
    vec![
        Range { base: a4(10, 0, 0, 0), prefix_len: 8 }, Range { base: a4(10, 1, 0, 0), prefix_len: 16 }, Range { base: a4(10, 1, 1, 0), prefix_len: 24 },
        Range { base: a4(10, 1, 1, 1), prefix_len: 32 }, Range { base: a4(20, 0, 0, 0), prefix_len: 8 },
    ]
}
fn probes() -> Vec<Address> {
    match UNIVERSE.load(std::sync::atomic::Ordering::SeqCst) {
        1 => return vec![an(&[0x20, 1, 0xd, 0xb8, 0, 1, 0, 1, 0, 0, 0, 0, 0, 0, 0, 1]), an(&[0x20, 1, 0xd, 0xb8, 0, 1, 0, 1, 0, 0, 0, 0, 0, 0, 0, 2]), an(&[0x20, 1, 0xd, 0xb8, 0, 1, 0, 2, 0, 0, 0, 0, 0, 0, 0, 1]),
                         an(&[0x20, 1, 0xd, 0xb8, 0, 2, 0, 0, 0, 0, 0, 0, 0, 0, 0, 1]), an(&[0xfc, 0, 0, 0, 0, 0, 0, 0, 0, 0, 0, 0, 0, 0, 0, 1]), an(&[0x30, 0, 0, 0, 0, 0, 0, 0, 0, 0, 0, 0, 0, 0, 0, 1])],
        2 => return vec![an(&[2, 0, 0, 1, 1, 1]), an(&[2, 0, 0, 1, 1, 2]), an(&[2, 0, 0, 1, 2, 1]), an(&[2, 0, 0, 2, 0, 1]), an(&[6, 0, 0, 0, 0, 1]), an(&[8, 0, 0, 0, 0, 1])],
        _ => {}
    }
    vec![a4(10, 1, 1, 1), a4(10, 1, 1, 2), a4(10, 1, 2, 1), a4(10, 2, 0, 1), a4(20, 0, 0, 1), a4(30, 0, 0, 1)] }
fn contains(r: &Range, a: &Address) -> bool {
    // bit-by-bit reference
    if r.base.len != a.len || r.prefix_len as usize > 8 * a.len as usize { return false; }
    (0..r.prefix_len as usize).all(|k| (r.base.data[k / 8] >> (7 - k % 8)) & 1 == (a.data[k / 8] >> (7 - k % 8)) & 1)
}

#[derive(Clone, Debug)]
enum Op { Announce(usize, Vec<usize>), Withdraw(usize), Lookup(usize), Learn(usize, usize), Tick(i64) }

struct Model { claims: Vec<(usize, usize, i64)>, cache: StdMap<usize, (usize, i64)>, now: i64 }
impl Model {
    fn housekeep(&mut self) { let now = self.now; self.claims.retain(|c| c.2 >= now); self.cache.retain(|_, v| v.1 >= now); }
}

fn run(seq: &[Op]) -> Option<String> {
    let peers: Vec<SocketAddr> = vec!["1.1.1.1:1".to_socket_addrs().unwrap().next().unwrap(), "2.2.2.2:2".to_socket_addrs().unwrap().next().unwrap()];
    let (rs, ps) = (ranges(), probes());
    let mut m = Model { claims: vec![], cache: StdMap::new(), now: 1000 };
    MockTimeSource::set_time(m.now);
    let mut t: ClaimTable<MockTimeSource> = ClaimTable::new(CACHE_T as Duration, CLAIM_T as Duration);
    for (step, op) in seq.iter().enumerate() {
        match op {
            Op::Announce(p, list) => {
                t.set_claims(peers[*p], list.iter().map(|i| rs[*i]).collect());
                // property C12: afterwards the peer's claims are exactly the announced ones (refreshed), decisions cached from the
                // peer disappear if one of its claims was dropped; other peers untouched; expired entries vanish
                let mut remaining = list.clone();
                let mut removed = false;
                for c in m.claims.iter_mut() {
                    if c.0 == *p {
                        if let Some(pos) = remaining.iter().position(|r| *r == c.1) { c.2 = m.now + CLAIM_T; remaining.swap_remove(pos); } else { c.2 = 0; removed = true; }
                    }
                }
                for r in remaining { m.claims.push((*p, r, m.now + CLAIM_T)); }
                if removed { for v in m.cache.values_mut() { if v.0 == *p { v.1 = 0; } } }
                m.housekeep();
            }
            Op::Withdraw(p) => {
                t.remove_claims(peers[*p]);
                // property C12: no claim and no learned/cached address keeps pointing at a removed peer
                for c in m.claims.iter_mut() { if c.0 == *p { c.2 = 0; } }
                for v in m.cache.values_mut() { if v.0 == *p { v.1 = 0; } }
                m.housekeep();
            }
            Op::Learn(a, p) => { t.cache(ps[*a], peers[*p]); m.cache.insert(*a, (*p, m.now + CACHE_T)); }
            Op::Tick(dt) => { m.now += dt; MockTimeSource::set_time(m.now); t.housekeep(); m.housekeep(); }
            Op::Lookup(a) => {
                let got = t.lookup(ps[*a]);
                if let Some((p, _)) = m.cache.get(a) {
                    if got != Some(peers[*p]) { return Some(format!("step {}: lookup(probe {}) = {:?}, cached decision says peer {}", step, a, got, p)); }
                } else {
                    // property C11: the peer of a most specific claim containing the address; None iff no claim contains it
                    let best = m.claims.iter().filter(|c| contains(&rs[c.1], &ps[*a])).map(|c| rs[c.1].prefix_len).max();
                    match (best, got) {
                        (None, None) => {}
                        (Some(bl), Some(g)) => {
                            let cands: Vec<&(usize, usize, i64)> = m.claims.iter().filter(|c| contains(&rs[c.1], &ps[*a]) && rs[c.1].prefix_len == bl && peers[c.0] == g).collect();
                            if cands.is_empty() { return Some(format!("step {}: lookup(probe {}) = {:?} is not the peer of a most specific live claim (prefix {})", step, a, got, bl)); }
                            // the new decision lives no longer than the switch timeout and never beyond the claim
                            let exp = cands.iter().map(|c| c.2).max().unwrap();
                            let p = cands[0].0;
                            m.cache.insert(*a, (p, std::cmp::min(m.now + CACHE_T, exp)));
                        }
                        _ => return Some(format!("step {}: lookup(probe {}) = {:?} but the model expects {}", step, a, got, if best.is_some() { "a peer" } else { "None" })),
                    }
                }
            }
        }
        if t.claim_len() != m.claims.len() { return Some(format!("step {}: {} claims in the table, {} expected", step, t.claim_len(), m.claims.len())); }
        if t.cache_len() != m.cache.len() { return Some(format!("step {}: {} cached decisions in the table, {} expected", step, t.cache_len(), m.cache.len())); }
    }
    None
}

fn alphabet() -> Vec<Op> {
    let mut ops = vec![];
    for p in 0..2 {
        for l in [vec![], vec![0], vec![1], vec![3], vec![0, 1], vec![1, 0], vec![0, 1, 2], vec![2, 0], vec![1, 1], vec![4, 3]] { ops.push(Op::Announce(p, l)); }
        ops.push(Op::Withdraw(p));
        ops.push(Op::Learn(5, p));
        ops.push(Op::Learn(0, p));
    }
    for a in 0..6 { ops.push(Op::Lookup(a)); }
    for dt in [0, 1, 10, 11, 30, 31] { ops.push(Op::Tick(dt)); }
    ops
}

#[test]
fn table_matches_reference_model() {
    let ops = alphabet();
    let mut failing = 0;
    let mut report = |seq: &[Op], why: String| { failing += 1; if failing <= 3 { println!("FAILING-INPUT: history {:?}: {}", seq, why); } };
    // all histories of length <= 3 followed by lookups of every probe
    let tail: Vec<Op> = (0..6).map(Op::Lookup).chain(std::iter::once(Op::Tick(1))).chain((0..6).map(Op::Lookup)).collect();
    for a in &ops { for b in &ops { for c in &ops {
        let mut seq = vec![a.clone(), b.clone(), c.clone()];
        seq.extend(tail.iter().cloned());
        if let Some(why) = run(&seq) { report(&seq, why); }
    } } }
    // seeded random histories of length 40
    let mut x: u64 = std::env::var("VERIF_SEED").ok().and_then(|s| s.parse().ok()).unwrap_or(1) ^ 0x9e3779b97f4a7c15;
    let mut next = || { x ^= x << 13; x ^= x >> 7; x ^= x << 17; x };
    for _ in 0..3000 {
        let seq: Vec<Op> = (0..40).map(|_| ops[(next() % ops.len() as u64) as usize].clone()).collect();
        if let Some(why) = run(&seq) { report(&seq, why); }
    }
    // the same for IPv6 and MAC universes (nested prefixes of 24..128 bits): all histories of length <= 2, random histories of length 40
    for u in 1..3 {
        UNIVERSE.store(u, std::sync::atomic::Ordering::SeqCst);
        for a in &ops { for b in &ops {
            let mut seq = vec![a.clone(), b.clone()];
            seq.extend(tail.iter().cloned());
            if let Some(why) = run(&seq) { report(&seq, format!("[address universe {}: {}] {}", u, if u == 1 { "IPv6" } else { "MAC" }, why)); }
        } }
        for _ in 0..1500 {
            let seq: Vec<Op> = (0..40).map(|_| ops[(next() % ops.len() as u64) as usize].clone()).collect();
            if let Some(why) = run(&seq) { report(&seq, format!("[address universe {}: {}] {}", u, if u == 1 { "IPv6" } else { "MAC" }, why)); }
        }
    }
    UNIVERSE.store(0, std::sync::atomic::Ordering::SeqCst);
    assert_eq!(failing, 0);
}
