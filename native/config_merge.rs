// Native replay / refutation driver for the config unit (property C20): defaults <- config file <- command line for every option
// in the four presence combinations (neither / file / command line / both), checked field by field against the documented rule.
use super::*;

fn file_all() -> ConfigFile {
    ConfigFile {
        device: Some(ConfigFileDevice { type_: Some(Type::Tap), name: Some("fdev".into()), path: Some("fpath".into()), fix_rp_filter: Some(true) }),
        ip: Some("fip".into()), advertise_addresses: Some(vec!["fadv".into()]), ifup: Some("fifup".into()), ifdown: Some("fifdown".into()),
        crypto: CryptoConfig { password: Some("fpw".into()), private_key: Some("fpriv".into()), public_key: Some("fpub".into()),
            trusted_keys: vec!["ftk1".into(), "ftk2".into()], algorithms: vec!["falgo".into()] },
        listen: Some("flisten".into()), peers: Some(vec!["fpeer".into()]), peer_timeout: Some(701), keepalive: Some(702),
        beacon: Some(ConfigFileBeacon { store: Some("fbs".into()), load: Some("fbl".into()), interval: Some(703), password: Some("fbp".into()) }),
        mode: Some(Mode::Hub), switch_timeout: Some(704), claims: Some(vec!["fclaim".into()]), auto_claim: Some(false), port_forwarding: Some(false),
        pid_file: Some("fpid".into()), stats_file: Some("fstats".into()),
        statsd: Some(ConfigFileStatsd { server: Some("fsd".into()), prefix: Some("fsp".into()) }),
        user: Some("fuser".into()), group: Some("fgroup".into()), hook: Some("fhook".into()),
        hooks: [("peer_connected", "fconn"), ("peer_disconnected", "fdisc")].iter().map(|(k, v)| (k.to_string(), v.to_string())).collect(),
    }
}
fn args_all() -> Args {
    Args {
        type_: Some(Type::Tun), device: Some("adev".into()), device_path: Some("apath".into()), fix_rp_filter: true,
        ip: Some("aip".into()), advertise_addresses: vec!["aadv".into()], ifup: Some("aifup".into()), ifdown: Some("aifdown".into()),
        password: Some("apw".into()), private_key: Some("apriv".into()), public_key: Some("apub".into()), trusted_keys: vec!["atk".into()], algorithms: vec!["aalgo".into()],
        listen: Some("alisten".into()), peers: vec!["apeer".into()], peer_timeout: Some(801), keepalive: Some(802),
        beacon_store: Some("abs".into()), beacon_load: Some("abl".into()), beacon_interval: Some(803), beacon_password: Some("abp".into()),
        mode: Some(Mode::Switch), switch_timeout: Some(804), claims: vec!["aclaim".into()], no_auto_claim: true, no_port_forwarding: true, daemon: true,
        pid_file: Some("apid".into()), stats_file: Some("astats".into()), statsd_server: Some("asd".into()), statsd_prefix: Some("asp".into()),
        user: Some("auser".into()), group: Some("agroup".into()),
        // per-event hooks `event:script` (one event also given in the file, one new), and the catch-all hook (no colon)
        hook: vec!["peer_disconnected:adisc".into(), "device_setup:asetup".into(), "ahook".into()],
        ..Default::default()
    }
}

fn pick<T: Clone>(a: bool, f: bool, av: T, fv: T, dv: T) -> T { if a { av } else if f { fv } else { dv } }
fn s(x: &str) -> String { x.to_string() }
fn so(x: &str) -> Option<String> { Some(x.to_string()) }

#[test]
fn sources_combine_as_documented() {
    let mut failing: Vec<String> = vec![];
    for (f, a) in [(false, false), (true, false), (false, true), (true, true)] {
        let d = Config::default();
        let mut c = Config::default();
        // as main.rs does: the file form (possibly empty) and the command line (possibly silent) are ALWAYS merged, in this order
        c.merge_file(if f { file_all() } else { ConfigFile::default() });
        c.merge_args(if a { args_all() } else { Args::default() });
        let mut chk = |name: &str, ok: bool| { if !ok { failing.push(format!("{} (file given: {}, command line given: {})", name, f, a)); } };
        chk("device_type", c.device_type == pick(a, f, Type::Tun, Type::Tap, d.device_type));
        chk("device_name", c.device_name == pick(a, f, s("adev"), s("fdev"), d.device_name.clone()));
        chk("device_path", c.device_path == pick(a, f, so("apath"), so("fpath"), None));
        chk("fix_rp_filter", c.fix_rp_filter == (a || f));
        chk("ip", c.ip == pick(a, f, so("aip"), so("fip"), None));
        chk("ifup", c.ifup == pick(a, f, so("aifup"), so("fifup"), None));
        chk("ifdown", c.ifdown == pick(a, f, so("aifdown"), so("fifdown"), None));
        chk("listen", c.listen == pick(a, f, s("alisten"), s("flisten"), d.listen.clone()));
        chk("peer_timeout", c.peer_timeout == pick(a, f, 801, 701, d.peer_timeout));
        chk("keepalive", c.keepalive == pick(a, f, Some(802), Some(702), None));
        chk("beacon_store", c.beacon_store == pick(a, f, so("abs"), so("fbs"), None));
        chk("beacon_load", c.beacon_load == pick(a, f, so("abl"), so("fbl"), None));
        chk("beacon_interval", c.beacon_interval == pick(a, f, 803, 703, d.beacon_interval));
        chk("beacon_password", c.beacon_password == pick(a, f, so("abp"), so("fbp"), None));
        chk("mode", c.mode == pick(a, f, Mode::Switch, Mode::Hub, d.mode));
        chk("switch_timeout", c.switch_timeout == pick(a, f, 804, 704, d.switch_timeout));
        chk("auto_claim", c.auto_claim == !(a || f));
        chk("port_forwarding", c.port_forwarding == !(a || f));
        chk("daemonize", c.daemonize == a);
        chk("pid_file", c.pid_file == pick(a, f, so("apid"), so("fpid"), None));
        chk("stats_file", c.stats_file == pick(a, f, so("astats"), so("fstats"), None));
        chk("statsd_server", c.statsd_server == pick(a, f, so("asd"), so("fsd"), None));
        chk("statsd_prefix", c.statsd_prefix == pick(a, f, so("asp"), so("fsp"), None));
        chk("user", c.user == pick(a, f, so("auser"), so("fuser"), None));
        chk("group", c.group == pick(a, f, so("agroup"), so("fgroup"), None));
        chk("crypto.password", c.crypto.password == pick(a, f, so("apw"), so("fpw"), None));
        chk("crypto.private_key", c.crypto.private_key == pick(a, f, so("apriv"), so("fpriv"), None));
        chk("crypto.public_key", c.crypto.public_key == pick(a, f, so("apub"), so("fpub"), None));
        chk("crypto.algorithms", c.crypto.algorithms == pick(a, f, vec![s("aalgo")], vec![s("falgo")], vec![]));
        let list = |fv: &[&str], av: &[&str]| -> Vec<String> { let mut v = vec![]; if f { v.extend(fv.iter().map(|x| s(x))); } if a { v.extend(av.iter().map(|x| s(x))); } v };
        chk("advertise_addresses (accumulate)", c.advertise_addresses == list(&["fadv"], &["aadv"]));
        chk("peers (accumulate)", c.peers == list(&["fpeer"], &["apeer"]));
        chk("claims (accumulate)", c.claims == list(&["fclaim"], &["aclaim"]));
        chk("crypto.trusted_keys (accumulate)", c.crypto.trusted_keys == list(&["ftk1", "ftk2"], &["atk"]));
        // per-event hooks accumulate over the sources; for an event given in both the command line wins; the catch-all hook is a scalar
        let mut hooks: std::collections::HashMap<String, String> = Default::default();
        if f { hooks.insert(s("peer_connected"), s("fconn")); hooks.insert(s("peer_disconnected"), s("fdisc")); }
        if a { hooks.insert(s("peer_disconnected"), s("adisc")); hooks.insert(s("device_setup"), s("asetup")); }
        chk("hooks (per event: accumulate, command line wins for the same event)", c.hooks == hooks);
        chk("hook (catch-all)", c.hook == pick(a, f, so("ahook"), so("fhook"), None));
        // round trip through the file form reproduces everything the file format can express
        let mut back = Config::default();
        let daemonize = c.daemonize;
        let orig = c.clone();
        back.merge_file(c.into_config_file());
        back.daemonize = daemonize;
        chk("round trip through the file form", back == orig);
    }
    for x in failing.iter().take(3) { println!("FAILING-INPUT: setting {} does not follow command line > file > default / accumulation", x); }
    assert!(failing.is_empty());
}
