// Native replay driver for obligation kani::coreblocks::decrypt_block_contract (property C02):
// a datagram whose key-id byte was altered must be dropped.  Real ring keys, really sealed datagrams.
use super::*;
use ring::aead;

#[test]
fn altered_key_id_is_rejected() {
    let mut failing = 0;
    for algo in [&aead::AES_128_GCM, &aead::AES_256_GCM, &aead::CHACHA20_POLY1305] {
        let (mut sender, mut receiver) = create_dummy_pair(algo);
        for v in 1u16..64 {
            let mut buffer = MsgBuffer::new(EXTRA_LEN);
            buffer.clone_from(b"payload bytes");
            sender.encrypt(&mut buffer);
            let orig = buffer.message()[0];
            let altered = orig.wrapping_add((v * 4) as u8);      // same value mod 4, different byte
            if altered == orig { continue; }
            buffer.message_mut()[0] = altered;
            let r = receiver.decrypt(&mut buffer);
            if r.is_ok() {
                failing += 1;
                if failing <= 3 {
                    println!("FAILING-INPUT: sealed datagram with key-id byte {} altered to {} (bit flip outside the low two bits) is accepted by CryptoCore::decrypt and yields the payload {:?}", orig, altered, std::str::from_utf8(buffer.message()));
                }
            }
        }
    }
    assert_eq!(failing, 0, "altered key id accepted");
}
