// Native search driver for the first sentence of property C01 ("a node establishes a connection ... only with a party that proved
// possession of a private key whose public key the node trusts, and two nodes become peers EXACTLY when each trusts the other's key") -
// a statement about whole handshakes between real nodes, which per-function contracts do not decide: BOUNDED stand-in.
// Bound: two and three real nodes on the in-tree simulator (attached below src/tests/common.rs), three key pairs (two derived from
// passwords, one explicit private key), every trusted-key configuration per node out of {none configured (= own key only), own, the
// other's, both, a stranger's}: 5 x 5 configurations for two nodes in both dial directions, and the 3-node chain with mixed trust.
//   - the two nodes are mutually connected  <=>  each trusts the other's key;   never one-sided after the exchange has settled;
//   - with three nodes, nodes that do not trust each other are not connected even when a common peer advertises them.
use super::*;
use crate::crypto::Crypto;

fn fail(failing: &mut usize, msg: String) {
    *failing += 1;
    if *failing <= 3 { println!("FAILING-INPUT: {}", msg); }
}

// (private key text, public key text)
fn keys() -> Vec<(String, String)> {
    vec![Crypto::generate_keypair(Some("trust-a")), Crypto::generate_keypair(Some("trust-b")), Crypto::generate_keypair(Some("stranger"))]
}
fn cfg(own: &(String, String), trusted: &[String]) -> Config {
    let mut c = Config::default();
    c.crypto.password = None;
    c.crypto.private_key = Some(own.0.clone());
    c.crypto.public_key = Some(own.1.clone());
    c.crypto.trusted_keys = trusted.to_vec();
    c
}
// trust configuration t of a node with own key `me` towards a node with key `other`: (configured list, does it trust `other`?)
fn trust(t: u8, me: &(String, String), other: &(String, String), stranger: &(String, String)) -> (Vec<String>, bool) {
    match t {
        0 => (vec![], me.1 == other.1),
        1 => (vec![me.1.clone()], me.1 == other.1),
        2 => (vec![other.1.clone()], true),
        3 => (vec![me.1.clone(), other.1.clone()], true),
        _ => (vec![stranger.1.clone()], false),
    }
}

#[test]
fn nodes_peer_exactly_when_each_trusts_the_other() {
    let mut failing = 0usize;
    let k = keys();
    for ta in 0..5u8 { for tb in 0..5u8 { for &b_dials in [false, true].iter() { for &same_key in [false, true].iter() {
        let ka = &k[0];
        let kb = if same_key { &k[0] } else { &k[1] };
        let (la, a_trusts_b) = trust(ta, ka, kb, &k[2]);
        let (lb, b_trusts_a) = trust(tb, kb, ka, &k[2]);
        let mut sim = TapSimulator::new();
        let a = sim.add_node(false, &cfg(ka, &la));
        let b = sim.add_node(false, &cfg(kb, &lb));
        if b_dials { sim.connect(b, a); } else { sim.connect(a, b); }
        sim.simulate_all_messages();
        for t in 1..5 { sim.set_time(t); sim.trigger_housekeep(); sim.simulate_all_messages(); }
        let (ab, ba) = (sim.is_connected(a, b), sim.is_connected(b, a));
        let expect = a_trusts_b && b_trusts_a;
        let what = format!("A ({}) trusts {:?}, B ({}) trusts {:?}, {} dials", if same_key { "same key pair as B" } else { "own key pair" }, ["nothing configured (own key only)", "its own key", "the other's key", "both keys", "a stranger's key"][ta as usize], if same_key { "same key pair" } else { "own key pair" }, ["nothing configured (own key only)", "its own key", "the other's key", "both keys", "a stranger's key"][tb as usize], if b_dials { "B" } else { "A" });
        if ab != ba { fail(&mut failing, format!("{}: one-sided connection (A->B {}, B->A {})", what, ab, ba)); }
        else if ab != expect { fail(&mut failing, format!("{}: mutually connected = {}, but each trusts the other = {}", what, ab, expect)); }
    } } } }
    // chain A - M - C: M trusts everybody and is trusted by both; A and C do not trust each other: M advertises them to each other,
    // they must not become peers
    {
        let all = vec![k[0].1.clone(), k[1].1.clone(), k[2].1.clone()];
        let mut sim = TapSimulator::new();
        let a = sim.add_node(false, &cfg(&k[0], &[k[0].1.clone(), k[1].1.clone()]));
        let m = sim.add_node(false, &cfg(&k[1], &all));
        let c = sim.add_node(false, &cfg(&k[2], &[k[2].1.clone(), k[1].1.clone()]));
        sim.connect(a, m); sim.connect(c, m);
        sim.simulate_all_messages();
        for t in 1..400 { sim.set_time(t); sim.trigger_housekeep(); sim.simulate_all_messages();
            if sim.is_connected(a, c) || sim.is_connected(c, a) { fail(&mut failing, format!("chain A - M - C, A and C trust only M: at t={} A and C are connected although neither trusts the other's key", t)); break; } }
        if !sim.is_connected(a, m) || !sim.is_connected(c, m) { fail(&mut failing, "chain A - M - C: the mutually trusting pairs are not connected".to_string()); }
    }
    assert_eq!(failing, 0);
}
