// Native search driver for obligation buffer::CryptoCore::decrypt (property C08): CryptoCore::decrypt must be total on every
// well-formed buffer.  Real cores; every datagram length 0..=40 with a few byte patterns; a panic is a failing input.
use super::*;
use ring::aead;
use std::panic;

#[test]
fn decrypt_is_total_on_short_datagrams() {
    let mut failing = 0;
    panic::set_hook(Box::new(|_| {}));
    for len in 0..=40usize {
        for fill in [0u8, 1, 0x80, 0xff] {
            let r = panic::catch_unwind(|| {
                let (_sender, mut receiver) = create_dummy_pair(&aead::CHACHA20_POLY1305);
                let mut buffer = MsgBuffer::new(100);
                let data = vec![fill; len];
                buffer.clone_from(&data);
                let _ = receiver.decrypt(&mut buffer);
                let _ = buffer.len();
            });
            if r.is_err() {
                failing += 1;
                if failing <= 3 {
                    println!("FAILING-INPUT: CryptoCore::decrypt panics on a {}-byte datagram filled with 0x{:02x}", len, fill);
                }
            }
        }
    }
    let _ = panic::take_hook();
    assert_eq!(failing, 0, "decrypt panicked on short datagrams");
}
