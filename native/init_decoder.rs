// Native search driver for the handshake decoder (properties C08 / C16 / C01, obligation codec::InitMsg::read_from):
// InitMsg::read_from is fed, under catch_unwind,
//   (a) genuine ping / pong / peng datagrams, every truncation of them, every single-byte substitution (values 0, 1, 0x40, 0x41, 0x7f,
//       0x80, 0xff and the byte +1) at every position,
//   (b) crafted datagrams that pass the salted-key-hash gate (salt and hash copied from a genuine message, as an eavesdropper can):
//       arbitrary part lists, every signature-length byte 0..=255 with and without enough bytes behind it, huge field lengths,
//   (c) random bytes behind a valid 8-byte prefix, and purely random bytes.
// It must never panic, and must never accept a datagram whose signed part differs from a genuine one (no key is available to the
// generator of (b) and (c), so every acceptance there is a forgery).
use super::*;
use std::panic;

struct Rng(u64);
impl Rng {
    fn next(&mut self) -> u64 { self.0 ^= self.0 << 13; self.0 ^= self.0 >> 7; self.0 ^= self.0 << 17; self.0 }
    fn below(&mut self, n: u64) -> u64 { (self.next() >> 11) % n }
    fn byte(&mut self) -> u8 { (self.next() >> 24) as u8 }
}

fn pair() -> (InitState<Vec<u8>>, InitState<Vec<u8>>, Arc<[Ed25519PublicKey]>) {
    let rng = SystemRandom::new();
    let pkcs8_bytes = Ed25519KeyPair::generate_pkcs8(&rng).unwrap();
    let key_pair = Arc::new(Ed25519KeyPair::from_pkcs8(pkcs8_bytes.as_ref()).unwrap());
    let mut public_key = [0; ED25519_PUBLIC_KEY_LEN];
    public_key.clone_from_slice(key_pair.public_key().as_ref());
    let trusted: Arc<[Ed25519PublicKey]> = Arc::new([public_key]);
    let algorithms = Algorithms {
        algorithm_speeds: smallvec![(&AES_128_GCM, 600.0), (&AES_256_GCM, 500.0), (&CHACHA20_POLY1305, 400.0)],
        allow_unencrypted: false,
    };
    let a = InitState::new([1; 16], vec![1, 2, 3], key_pair.clone(), trusted.clone(), algorithms.clone());
    let b = InitState::new([2; 16], vec![4, 5, 6], key_pair, trusted.clone(), algorithms);
    (a, b, trusted)
}
fn hex(b: &[u8]) -> String { let mut s = String::new(); for x in b.iter().take(200) { s.push_str(&format!("{:02x}", x)); } if b.len() > 200 { s.push_str("..."); } s }


// every check of this driver is tagged with the properties whose statement it is taken from; when the driver is consulted for ONE
// property (VERIF_PROPERTY, set by ./check) only the failures tagged with it count
fn counts(tags: &str) -> bool {
    match std::env::var("VERIF_PROPERTY") { Ok(p) if !p.is_empty() => tags.split(',').any(|t| t == p), _ => true }
}
/// Ok(true): accepted, Ok(false): rejected, Err: panic
fn feed(bytes: &[u8], trusted: &Arc<[Ed25519PublicKey]>) -> Result<bool, ()> {
    let b = bytes.to_vec();
    let t = trusted.clone();
    panic::catch_unwind(move || InitMsg::read_from(&b, &t).is_ok()).map_err(|_| ())
}

#[test]
fn handshake_decoder_is_total_and_accepts_only_signed_messages() {
    let hook = panic::take_hook();
    panic::set_hook(Box::new(|_| {}));
    let mut failing = 0usize;
    let mut r = Rng(0x1234_5678_9abc_def1);
    // genuine ping, pong, peng (marker byte stripped: read_from sees the message without it)
    let (mut a, mut b, trusted) = pair();
    let mut out = MsgBuffer::new(8);
    let mut genuine: Vec<Vec<u8>> = vec![];
    a.send_ping(&mut out);
    genuine.push(out.message().to_vec());
    b.handle_init(&mut out).unwrap();
    genuine.push(out.message().to_vec());
    a.handle_init(&mut out).unwrap();
    genuine.push(out.message().to_vec());
    let mut report = |what: &str, bytes: &[u8], res: Result<bool, ()>, may_accept: bool, failing: &mut usize| {
        // VERIF_ONLY_PANICS=1 (property C08): only crashes count; acceptance of forged content is property C01's matter
        let only_panics = std::env::var("VERIF_ONLY_PANICS").map(|v| v == "1").unwrap_or(false);
        let bad = match res { Err(()) => Some("panic"), Ok(true) if !may_accept && !only_panics => Some("accepted although its signed content is not genuine"), _ => None };
        if let Some(b) = bad {
            if !counts(if b == "panic" { "C08,C16,C01" } else { "C01,C16" }) { return; }
            *failing += 1;
            if *failing <= 3 { println!("FAILING-INPUT: {} ({} bytes) {}: {}", what, bytes.len(), hex(bytes), b); }
        }
    };
    for g in genuine.iter() {
        report("genuine handshake message", g, feed(g, &trusted), true, &mut failing);
        if feed(g, &trusted) != Ok(true) && counts("C16,C01,C06") { failing += 1; println!("FAILING-INPUT: genuine handshake message {} is rejected", hex(g)); }
        // where the signed part ends: the signature length byte + signature are the tail
        let siglen = 64usize;
        let signed_end = g.len() - siglen - 1;
        for cut in 0..g.len() { report("truncated handshake message", &g[..cut], feed(&g[..cut], &trusted), false, &mut failing); }
        for i in 0..g.len() {
            for v in [0u8, 1, 0x40, 0x41, 0x7f, 0x80, 0xff, g[i].wrapping_add(1)].iter() {
                if *v == g[i] { continue; }
                let mut m = g.clone(); m[i] = *v;
                report("handshake message with one byte substituted", &m, feed(&m, &trusted), false, &mut failing);
            }
        }
        // (b) crafted behind the genuine salt + hash
        let prefix = &g[..8];
        for siglen in 0..=255u16 {
            for extra in [0usize, 1, 63, 64, 65, 255, 300].iter() {
                let mut m = prefix.to_vec(); m.push(0); m.push(siglen as u8); m.extend((0..*extra).map(|_| r.byte()));
                report("end marker + signature length byte behind a sniffed salt/hash", &m, feed(&m, &trusted), false, &mut failing);
                let mut m2 = g[..signed_end].to_vec(); m2.push(siglen as u8); m2.extend((0..*extra).map(|_| r.byte()));
                report("genuine signed part with a forged signature", &m2, feed(&m2, &trusted), false, &mut failing);
            }
        }
        for tag in 0..=8u8 {
            for len in [0u16, 1, 2, 4, 5, 6, 19, 20, 21, 32, 255, 256, 1000, 65535].iter() {
                for avail in [0usize, 1, 5, 20, 40, 300].iter() {
                    let mut m = prefix.to_vec(); m.push(tag); m.extend_from_slice(&len.to_be_bytes()); m.extend((0..*avail).map(|_| r.byte()));
                    report("crafted part behind a sniffed salt/hash", &m, feed(&m, &trusted), false, &mut failing);
                    m.push(0); m.push(64); m.extend((0..64).map(|_| r.byte()));
                    report("crafted part + end + signature behind a sniffed salt/hash", &m, feed(&m, &trusted), false, &mut failing);
                }
            }
        }
        for _ in 0..3000 {
            let n = r.below(120) as usize;
            let mut m = prefix.to_vec(); m.extend((0..n).map(|_| if r.below(3) == 0 { r.below(7) as u8 } else { r.byte() }));
            report("random bytes behind a sniffed salt/hash", &m, feed(&m, &trusted), false, &mut failing);
        }
    }
    for _ in 0..3000 {
        let n = r.below(200) as usize;
        let m: Vec<u8> = (0..n).map(|_| r.byte()).collect();
        report("random bytes", &m, feed(&m, &trusted), false, &mut failing);
    }
    // (d) well-formed messages whose salted key hash selects NO trusted key: genuine messages of an untrusted key pair, and messages
    //     carrying a signature that verifies under degenerate public keys (the all-zero key is a point of small order: R = 1, S = 0
    //     verifies for about one message in four) - a decoder that falls through to "some" key instead of rejecting accepts these
    {
        let (mut c, _d, _other_trusted) = pair();
        let mut out2 = MsgBuffer::new(8);
        c.send_ping(&mut out2);
        let foreign = out2.message().to_vec();
        report("genuine ping signed with an UNTRUSTED key", &foreign, feed(&foreign, &trusted), false, &mut failing);
        let signed_end = genuine[0].len() - 65;
        for _ in 0..64 {
            let mut m = genuine[0][..signed_end].to_vec();
            for b in m.iter_mut().take(8) { *b = r.byte(); }      // a salt/hash pair that matches no trusted key
            m.push(64);
            let mut sig = [0u8; 64]; sig[0] = 1;
            m.extend_from_slice(&sig);
            report("well-formed ping with an unmatched key hash and the signature (R = 1, S = 0) that verifies under the all-zero key", &m, feed(&m, &trusted), false, &mut failing);
        }
    }
    // (e) C06: the advertised cipher list survives the wire - every subset of {plain, aes128, aes256, chacha20} in every order
    {
        let (_a2, _b2, _t2) = pair();
        let rng = SystemRandom::new();
        let pkcs8 = Ed25519KeyPair::generate_pkcs8(&rng).unwrap();
        let kp = Ed25519KeyPair::from_pkcs8(pkcs8.as_ref()).unwrap();
        let mut pk = [0u8; ED25519_PUBLIC_KEY_LEN];
        pk.clone_from_slice(kp.public_key().as_ref());
        let all: [&'static Algorithm; 3] = [&AES_128_GCM, &AES_256_GCM, &CHACHA20_POLY1305];
        let orders: [[usize; 3]; 6] = [[0, 1, 2], [0, 2, 1], [1, 0, 2], [1, 2, 0], [2, 0, 1], [2, 1, 0]];
        for mask in 0..8u8 { for order in orders.iter() { for &plain in [false, true].iter() {
            let list: SmallVec<[(&'static Algorithm, f32); 3]> = order.iter().filter(|i| mask & (1 << **i) != 0).map(|i| (all[*i], 100.37 + 0.41 * *i as f32)).collect();
            let msg = InitMsg::Ping { salted_node_id_hash: [7; 20], ecdh_public_key: EcdhPublicKey::new(&X25519, smallvec![9; 32]), algorithms: Algorithms { algorithm_speeds: list.clone(), allow_unencrypted: plain } };
            let mut buf = [0u8; 400];
            let n = msg.write_to(&mut buf, &kp).unwrap();
            match InitMsg::read_from(&buf[..n], &[pk]) {
                Ok((InitMsg::Ping { algorithms, .. }, _)) => {
                    let same = algorithms.allow_unencrypted == plain && algorithms.algorithm_speeds.len() == list.len()
                        && algorithms.algorithm_speeds.iter().zip(list.iter()).all(|(x, y)| x.0 == y.0 && x.1 == y.1);
                    if !same && counts("C06,C16") {
                        failing += 1;
                        if failing <= 3 { println!("FAILING-INPUT: a ping advertising {} cipher(s) in order {:?} (subset mask {:#05b}) with plain={} is read back with {} cipher(s), plain={}: the advertised list does not reach the negotiation unaltered", list.len(), order, mask, plain, algorithms.algorithm_speeds.len(), algorithms.allow_unencrypted); }
                    }
                }
                _ => if counts("C06,C16") { failing += 1; if failing <= 3 { println!("FAILING-INPUT: a genuine ping advertising {} cipher(s), plain={} is not read back as a ping", list.len(), plain); } }
            }
        } } }
    }
    panic::set_hook(hook);
    assert_eq!(failing, 0);
}
