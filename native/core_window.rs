// Native replay / refutation driver for the replay window (property C03; obligations kani::core::*): real cores, really sealed
// datagrams.  All interleavings of {deliver datagram 0..4 (again), tick} up to length 6 (length 5 with forged copies), on the handshake key slot and on a
// rotated-in receive-only slot, against the acceptance rule of the property:
//   a datagram is accepted  <=>  it opens  and  its counter is higher than every datagram accepted before the tick preceding the most recent tick.
use super::*;
use ring::aead::{self, LessSafeKey, UnboundKey};

fn sealed(sender: &mut CryptoCore, n: usize) -> Vec<Vec<u8>> {
    (0..n).map(|i| {
        let mut b = MsgBuffer::new(EXTRA_LEN);
        b.clone_from(&[i as u8; 9]);
        sender.encrypt(&mut b);
        b.message().to_vec()
    }).collect()
}

fn run(rotated: bool, seq: &[u8]) -> Option<String> {
    let algo = &aead::CHACHA20_POLY1305;
    let (mut sender, mut receiver) = create_dummy_pair(algo);
    if rotated {
        let key = [7u8; 32];
        sender.rotate_key(LessSafeKey::new(UnboundKey::new(algo, &key).unwrap()), 1, true);
        receiver.rotate_key(LessSafeKey::new(UnboundKey::new(algo, &key).unwrap()), 1, false);
    }
    let grams = sealed(&mut sender, 5);
    // accepted[i] = Some(number of ticks that had happened when datagram i was (last) accepted)
    let mut accepted_at: Vec<Vec<usize>> = vec![vec![]; 5];
    let mut ticks = 0usize;
    for (step, op) in seq.iter().enumerate() {
        if *op == 5 {
            receiver.every_second();
            ticks += 1;
        } else if *op > 5 {
            // a forged datagram: genuine header (key id and counter) of datagram op-6, altered body - must be rejected and leave no trace
            let i = (*op - 6) as usize;
            let mut forged = grams[i].clone();
            let last = forged.len() - 1;
            forged[last] ^= 0x55;
            let mut b = MsgBuffer::new(EXTRA_LEN);
            b.clone_from(&forged);
            if receiver.decrypt(&mut b).is_ok() {
                return Some(format!("step {}: forged copy of datagram {} accepted", step, i));
            }
        } else {
            let i = *op as usize;
            let mut b = MsgBuffer::new(EXTRA_LEN);
            b.clone_from(&grams[i]);
            let got = receiver.decrypt(&mut b).is_ok();
            // accepted before the tick preceding the most recent tick = accepted when fewer than ticks-1 ticks had happened
            let bound = (0..5).filter(|j| ticks >= 2 && accepted_at[*j].iter().any(|t| *t + 2 <= ticks)).max();
            let expect = match bound { Some(m) => i > m, None => true };
            if got != expect {
                return Some(format!("step {}: datagram {} {} although the rule says {} (ticks so far {}, acceptance history {:?})",
                    step, i, if got { "accepted" } else { "rejected" }, if expect { "accept" } else { "reject" }, ticks, accepted_at));
            }
            if got { accepted_at[i].push(ticks); }
        }
    }
    None
}

#[test]
fn replay_window_matches_the_property() {
    let mut failing = 0;
    for rotated in [false, true] {
        // alphabet: 0..=4 deliver, 5 tick (length <= 6); plus 6..=10 forged copies (length <= 5)
        for (symbols, maxlen) in [(6u8, 6usize), (11u8, 5usize)] {
        for len in 1..=maxlen {
            let mut seq = vec![0u8; len];
            loop {
                if let Some(why) = run(rotated, &seq) {
                    failing += 1;
                    if failing <= 3 {
                        let pretty: Vec<String> = seq.iter().map(|o| if *o == 5 { "tick".to_string() } else if *o > 5 { format!("forged#{}", o - 6) } else { format!("deliver#{}", o) }).collect();
                        println!("FAILING-INPUT: {} key slot, history {:?}: {}", if rotated { "rotated-in (receive-only)" } else { "handshake" }, pretty, why);
                    }
                }
                // next sequence in base 6
                let mut k = 0;
                while k < len { seq[k] += 1; if seq[k] < symbols { break; } seq[k] = 0; k += 1; }
                if k == len { break; }
            }
            if failing > 0 { break; }
        }
        }
    }
    assert_eq!(failing, 0);
}
