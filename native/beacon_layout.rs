// Native search driver for the VALUE of a beacon round trip (property C17: "a beacon produced for any list of peer addresses at any time
// with any beacon password is recovered exactly ... also when embedded anywhere in surrounding text and interleaved with
// non-alphanumeric characters"; obligations beacon::BeaconSerializer::{peerlist_decode, decode, decrypt_data, mask_with_keystream},
// base62::*). Bound: 40 passwords (incl. empty) x address lists with 0..=8 IPv4 and 0..=4 IPv6 entries in mixed order x 60 hour stamps,
// bare and embedded in host text with separators.
// The cases of the KNOWN finding (a masked body that starts with a zero byte loses it in the text form - known_findings.txt) are
// recognised by the length of the decoded body text and skipped; every other difference counts. IPv4 entries come back first, then IPv6,
// each family in the order given.
use super::*;

struct Rng(u64);
impl Rng {
    fn next(&mut self) -> u64 { self.0 ^= self.0 << 13; self.0 ^= self.0 >> 7; self.0 ^= self.0 << 17; self.0 }
    fn below(&mut self, n: u64) -> u64 { (self.next() >> 11) % n }
}

#[test]
fn beacons_are_recovered_exactly() {
    let mut failing = 0usize;
    let mut r = Rng(0x2545_f491_4f6c_dd1d);
    let mut skipped = 0usize;
    let mut checked = 0usize;
    for pwn in 0..40u32 {
        let pw = if pwn == 0 { String::new() } else { format!("secret{}", pwn * 7919) };
        let ser = BeaconSerializer::<MockTimeSource>::new(pw.as_bytes());
        for _ in 0..60 {
            let n4 = r.below(9) as usize;
            let n6 = r.below(5) as usize;
            let mut v4: Vec<SocketAddr> = (0..n4).map(|_| SocketAddr::V4(SocketAddrV4::new(Ipv4Addr::new(r.next() as u8, r.next() as u8, r.next() as u8, r.next() as u8), r.next() as u16))).collect();
            let mut v6: Vec<SocketAddr> = (0..n6).map(|_| { let mut s = [0u16; 8]; for x in s.iter_mut() { *x = r.next() as u16; } SocketAddr::V6(SocketAddrV6::new(Ipv6Addr::new(s[0], s[1], s[2], s[3], s[4], s[5], s[6], s[7]), r.next() as u16, 0, 0)) }).collect();
            // mixed order on input
            let mut peers: Vec<SocketAddr> = vec![];
            let (mut i4, mut i6) = (0, 0);
            while i4 < v4.len() || i6 < v6.len() {
                if i6 >= v6.len() || (i4 < v4.len() && r.below(2) == 0) { peers.push(v4[i4]); i4 += 1; } else { peers.push(v6[i6]); i6 += 1; }
            }
            let mut expected = vec![]; expected.append(&mut v4); expected.append(&mut v6);
            let hour = r.below(65536) as i64 + 65536 * r.below(3) as i64;
            MockTimeSource::set_time(hour * 3600 + r.below(3600) as i64);
            let text = ser.encode(&peers);
            // known finding: the body text stands for fewer bytes than were written (leading zero bytes of the masked body are lost)
            let body = &text[5..text.len() - 5];
            let body_len = 2 + 1 + 6 * n4 + 18 * n6 + 1;
            if from_base62(body).map(|b| b.len()).unwrap_or(0) < body_len { skipped += 1; continue; }
            checked += 1;
            let back = ser.decode(&text, None);
            if back != expected {
                failing += 1;
                if failing <= 3 { println!("FAILING-INPUT: beacon password {:?}, hour {}, peers {:?}: the beacon {:?} decodes to {:?}", pw, hour, peers, text, back); }
                continue;
            }
            // embedded in host text, interleaved with separators
            let mut host = String::from("Lorem ipsum, dolor: ");
            for (i, c) in text.chars().enumerate() { host.push(c); if i % 7 == 3 { host.push_str(["-", " ", "\n", ".", "(", ")", "ü"][i % 7]); } }
            host.push_str(" ... sit amet!");
            let back2 = ser.decode(&host, None);
            if back2 != expected {
                failing += 1;
                if failing <= 3 { println!("FAILING-INPUT: beacon password {:?}, hour {}, peers {:?}: embedded in the text {:?} it decodes to {:?}", pw, hour, peers, host, back2); }
            }
        }
    }
    // several beacons in one text ("several beacons per text"): every one is recovered, in order - for 400 passwords (about 1 in 62 has
    // markers that share a boundary character), directly concatenated and separated by other text
    let pa = vec![SocketAddr::from_str("1.2.3.4:5678").unwrap(), SocketAddr::from_str("6.6.6.6:53").unwrap()];
    let pb = vec![SocketAddr::from_str("9.8.7.6:1000").unwrap()];
    for pwn in 0..400u32 {
        let pw = format!("c17-{}", pwn);
        let ser = BeaconSerializer::<MockTimeSource>::new(pw.as_bytes());
        MockTimeSource::set_time(2000 * 3600);
        let (ta, tb) = (ser.encode(&pa), ser.encode(&pb));
        let lost = |t: &str, n: usize| from_base62(&t[5..t.len() - 5]).map(|b| b.len()).unwrap_or(0) < n;
        if lost(&ta, 2 + 1 + 12 + 1) || lost(&tb, 2 + 1 + 6 + 1) { continue; }
        if ser.decode(&ta, None) != pa || ser.decode(&tb, None) != pb { continue; }   // (single beacons are checked above)
        let mut expected = pa.clone(); expected.extend(pb.iter().cloned());
        // (also OVERLAPPING markers: where the end marker's last character is the begin marker's first, the two beacons may share it)
        let mut texts: Vec<String> = ["", " and ", "-"].iter().map(|sep| format!("{}{}{}", ta, sep, tb)).collect();
        if ta.chars().last() == tb.chars().next() { texts.push(format!("{}{}", ta, &tb[1..])); }
        for text in texts.iter() {
            let back = ser.decode(&text, None);
            if back != expected {
                failing += 1;
                if failing <= 3 { println!("FAILING-INPUT: beacon password {:?} (markers {:?} / {:?}): two beacons in one text {:?} decode to {:?}, expected {:?}", pw, ser.begin(), ser.end(), text, back, expected); }
            }
        }
    }
    println!("checked {} beacons, skipped {} (known finding)", checked, skipped);
    if checked < 2000 { failing += 1; println!("FAILING-INPUT: only {} beacons could be checked", checked); }
    assert_eq!(failing, 0);
}
