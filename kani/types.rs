// Kani harnesses for the fixed-size wire codecs of src/types.rs (Address, Range) - property C16 (fixed-size layer)
// and Range::matches / Address::eq against a bit-by-bit reference - property C11 (counterexample source for the Verus unit).
#![allow(dead_code, unused_imports)]
use super::*;
use std::io::Cursor;
use std::mem::ManuallyDrop;

fn any_address() -> Address {
    let a = Address { data: kani::any(), len: kani::any() };
    kani::assume(a.len <= 16);
    a
}

/// decode(encode(r)) == r for every range (every address length 0..=16, every content, every prefix length 0..=255),
/// the encoding is len+2 bytes long, and the decoded address is canonical (bytes beyond len are zero)
#[kani::proof]
#[kani::unwind(18)]
fn range_codec_round_trip() {
    let r = Range { base: any_address(), prefix_len: kani::any() };
    let mut buf = [0u8; 24];
    let written;
    {
        let mut c = Cursor::new(&mut buf[..]);
        r.write_to(&mut c);
        written = c.position() as usize;
    }
    assert!(written == r.base.len as usize + 2);
    let mut c = Cursor::new(&buf[..written]);
    let d = ManuallyDrop::new(Range::read_from(&mut c));
    match &*d {
        Ok(d) => {
            assert!(d.prefix_len == r.prefix_len);
            assert!(d.base.len == r.base.len);
            let mut i = 0;
            while i < 16 {
                if i < r.base.len as usize { assert!(d.base.data[i] == r.base.data[i]); } else { assert!(d.base.data[i] == 0); }
                i += 1;
            }
            assert!(c.position() as usize == written);
        }
        Err(_) => assert!(false),
    }
}

/// Range::read_from is total on arbitrary bytes: Ok or Err, never a panic; Ok only if the input holds len+2 bytes and len <= 16
#[kani::proof]
#[kani::unwind(18)]
fn range_decode_total() {
    let buf: [u8; 20] = kani::any();
    let n: usize = kani::any();
    kani::assume(n <= 20);
    let mut c = Cursor::new(&buf[..n]);
    let d = ManuallyDrop::new(Range::read_from(&mut c));
    match &*d {
        Ok(r) => {
            assert!(r.base.len <= 16);
            assert!(n >= r.base.len as usize + 2);
            assert!(r.base.len == buf[0]);
            assert!(r.prefix_len == buf[1 + r.base.len as usize]);
            assert!(c.position() as usize == r.base.len as usize + 2);
        }
        Err(_) => {
            assert!(n == 0 || buf[0] > 16 || n < buf[0] as usize + 2);
        }
    }
    kani::cover!(d.is_ok());
    kani::cover!(d.is_err() && n > 2);
}

/// Address::read_from_fixed: len > 16 is an error; short input is an error; otherwise exactly the next len bytes
#[kani::proof]
#[kani::unwind(18)]
fn address_read_from_fixed_contract() {
    let buf: [u8; 18] = kani::any();
    let n: usize = kani::any();
    kani::assume(n <= 18);
    let len: u8 = kani::any();
    let d = ManuallyDrop::new(Address::read_from_fixed(&buf[..n], len));
    match &*d {
        Ok(a) => {
            assert!(len <= 16 && n >= len as usize && a.len == len);
            let mut i = 0;
            while i < 16 {
                if i < len as usize { assert!(a.data[i] == buf[i]); } else { assert!(a.data[i] == 0); }
                i += 1;
            }
        }
        Err(_) => assert!(len > 16 || n < len as usize),
    }
}

// ---------- prefix matching (C11) -------------------------------------------------------------------
fn bit(d: &[u8; 16], k: usize) -> bool { (d[k / 8] >> (7 - (k % 8))) & 1 == 1 }

/// Range::matches == "same address family (length) and the first prefix_len bits agree (impossible if prefix_len > 8*len)",
/// against a bit-by-bit reference, for every base, address, length 0..=16 and prefix length 0..=255
#[kani::proof]
#[kani::unwind(130)]
fn range_matches_is_prefix_match() {
    let r = Range { base: any_address(), prefix_len: kani::any() };
    let a = any_address();
    let got = r.matches(a);
    let mut expect = r.base.len == a.len && (r.prefix_len as usize) <= 8 * a.len as usize;
    if expect {
        let mut k = 0;
        while k < r.prefix_len as usize {
            if bit(&r.base.data, k) != bit(&a.data, k) { expect = false; }
            k += 1;
        }
    }
    assert!(got == expect);
    kani::cover!(got && r.prefix_len > 9);
    kani::cover!(!got && r.base.len == a.len);
}

/// Address::eq == same length and same first len bytes (bytes beyond len never matter)
#[kani::proof]
#[kani::unwind(18)]
fn address_eq_is_prefix_equality() {
    let a = any_address();
    let b = any_address();
    let mut expect = a.len == b.len;
    let mut i = 0;
    while i < 16 {
        if i < a.len as usize && a.data[i] != b.data[i] { expect = false; }
        i += 1;
    }
    assert!((a == b) == expect);
}
