// Kani harnesses for src/payload.rs: the two dissectors against references written from the header layouts
// (IEEE 802.3 / 802.1Q, RFC 791, RFC 8200), not from the code.  Input: EVERY byte string of EVERY length the
// node can present (the receive buffer holds at most 65535 bytes); no bound on content or length.
#![allow(dead_code, unused_imports)]
use super::*;
use std::mem::ManuallyDrop;

fn any_input<const N: usize>(arr: &[u8; N]) -> &[u8] {
    let len: usize = kani::any();
    kani::assume(len <= N);
    &arr[..len]
}

fn prefix_eq(a: &Address, expect: &[u8], len: usize) -> bool {
    if a.len as usize != len { return false; }
    let mut i = 0;
    while i < len {
        if a.data[i] != expect[i] { return false; }
        i += 1;
    }
    true
}

fn tail_zero(a: &Address) -> bool {
    let mut i = a.len as usize;
    while i < 16 {
        if a.data[i] != 0 { return false; }
        i += 1;
    }
    true
}

/// Frame::parse == reference, total (never panics), for every input
fn frame_parse_matches_reference<const N: usize>() {
    let arr: [u8; N] = kani::any();
    let d = any_input(&arr);
    let r = ManuallyDrop::new(Frame::parse(d));
    if d.len() < 14 {
        assert!(r.is_err());
        return;
    }
    let tagged = d[12] == 0x81 && d[13] == 0x00;
    if !tagged {
        // untagged (any other ethertype, all 65535 of them): 6-byte MACs, dst first on the wire
        let (src, dst) = match &*r { Ok(x) => x, Err(_) => { assert!(false); return; } };
        assert!(prefix_eq(src, &d[6..12], 6));
        assert!(prefix_eq(dst, &d[0..6], 6));
        assert!(tail_zero(src) && tail_zero(dst));
        return;
    }
    if d.len() < 16 {
        assert!(r.is_err());
        return;
    }
    // single 802.1Q tag: TCI = PCP(3) DEI(1) VID(12); only the VID matters, for all 65536 TCI values
    let vid_hi = d[14] & 0x0f;
    let vid_lo = d[15];
    let (src, dst) = match &*r { Ok(x) => x, Err(_) => { assert!(false); return; } };
    if vid_hi == 0 && vid_lo == 0 {
        // priority-tagged frame (VLAN 0) counts as untagged
        assert!(prefix_eq(src, &d[6..12], 6));
        assert!(prefix_eq(dst, &d[0..6], 6));
    } else {
        let es = [vid_hi, vid_lo, d[6], d[7], d[8], d[9], d[10], d[11]];
        let ed = [vid_hi, vid_lo, d[0], d[1], d[2], d[3], d[4], d[5]];
        assert!(prefix_eq(src, &es, 8));
        assert!(prefix_eq(dst, &ed, 8));
        assert!(tail_zero(src) && tail_zero(dst));
    }
    kani::cover!(vid_hi == 0 && vid_lo == 0);
    kani::cover!(d.len() > 17);
}

/// Packet::parse == reference, total, for every input
fn packet_parse_matches_reference<const N: usize>() {
    let arr: [u8; N] = kani::any();
    let d = any_input(&arr);
    let r = ManuallyDrop::new(Packet::parse(d));
    if d.len() == 0 {
        assert!(r.is_err());
        return;
    }
    let version = d[0] >> 4;
    if version == 4 {
        if d.len() < 20 { assert!(r.is_err()); return; }
        let (src, dst) = match &*r { Ok(x) => x, Err(_) => { assert!(false); return; } };
        assert!(prefix_eq(src, &d[12..16], 4));
        assert!(prefix_eq(dst, &d[16..20], 4));
        assert!(tail_zero(src) && tail_zero(dst));
    } else if version == 6 {
        if d.len() < 40 { assert!(r.is_err()); return; }
        let (src, dst) = match &*r { Ok(x) => x, Err(_) => { assert!(false); return; } };
        assert!(prefix_eq(src, &d[8..24], 16));
        assert!(prefix_eq(dst, &d[24..40], 16));
    } else {
        assert!(r.is_err());
    }
    kani::cover!(version == 6 && d.len() >= 40);
    kani::cover!(version == 4 && d.len() == 20);
}

#[kani::proof] #[kani::unwind(18)] fn frame_parse_len_le_64() { frame_parse_matches_reference::<64>() }
#[kani::proof] #[kani::unwind(18)] fn frame_parse_len_le_1600() { frame_parse_matches_reference::<1600>() }
#[kani::proof] #[kani::unwind(18)] fn frame_parse_len_le_65535() { frame_parse_matches_reference::<65535>() }
#[kani::proof] #[kani::unwind(18)] fn packet_parse_len_le_64() { packet_parse_matches_reference::<64>() }
#[kani::proof] #[kani::unwind(18)] fn packet_parse_len_le_65535() { packet_parse_matches_reference::<65535>() }
