// Kani harnesses for src/crypto/core.rs (attached as a child module, so private items are visible).
// Unit U4: Nonce, CryptoKey, CryptoCore::{decrypt_with_key, rotate_key, every_second}.
// ring's AEAD/RNG entry points are replaced by nondeterministic stubs (listed in evidence).
#![allow(dead_code, unused_imports, static_mut_refs)]
use super::*;
use std::mem::ManuallyDrop;

// ---------- stubs -------------------------------------------------------------------------------
static mut OPEN_OK: bool = false;
static mut OPEN_CALLS: u32 = 0;
static mut OPEN_NONCE_SEEN: [u8; 12] = [0; 12];

pub fn stub_open_in_place<'in_out, A>(
    _key: &LessSafeKey, nonce: aead::Nonce, _aad: aead::Aad<A>, in_out: &'in_out mut [u8],
) -> Result<&'in_out mut [u8], ring::error::Unspecified>
where A: AsRef<[u8]> {
    unsafe {
        OPEN_CALLS += 1;
        OPEN_NONCE_SEEN = *nonce.as_ref();
        if OPEN_OK { Ok(in_out) } else { Err(ring::error::Unspecified) }
    }
}

static mut RAND_BYTES: [u8; 6] = [0; 6];
pub fn stub_fill<T>(_r: &T, dest: &mut [u8]) -> Result<(), ring::error::Unspecified> {
    // Nonce::random fills nonce.0[6..] (6 bytes); any values
    let n = dest.len();
    let mut i = 0;
    while i < n && i < 6 {
        dest[i] = unsafe { RAND_BYTES[i] };
        i += 1;
    }
    Ok(())
}

pub fn no_log() -> log::LevelFilter { log::LevelFilter::Off }

fn opaque_key() -> ManuallyDrop<LessSafeKey> {
    // never read: every ring function that would look inside is stubbed
    ManuallyDrop::new(unsafe { std::mem::transmute::<[u8; std::mem::size_of::<LessSafeKey>()], LessSafeKey>([0u8; std::mem::size_of::<LessSafeKey>()]) })
}

fn num(n: &Nonce) -> u128 {
    let mut v: u128 = 0;
    let mut i = 0;
    while i < 12 {
        v = (v << 8) | n.0[i] as u128;
        i += 1;
    }
    v
}

fn any_nonce() -> Nonce { Nonce(kani::any()) }

/// shape of every nonce `CryptoCore::decrypt` reconstructs: bytes 1..=4 are zero (proved by the decrypt header block, unit coreblocks)
fn wire_shape(n: &Nonce) -> bool { n.0[1] == 0 && n.0[2] == 0 && n.0[3] == 0 && n.0[4] == 0 }

fn any_key() -> ManuallyDrop<CryptoKey> {
    ManuallyDrop::new(CryptoKey {
        key: ManuallyDrop::into_inner(opaque_key()),
        send_nonce: any_nonce(), min_nonce: any_nonce(), next_min_nonce: any_nonce(), seen_nonce: any_nonce(),
    })
}

const M96: u128 = (1u128 << 96) - 1;

// ---------- Nonce ------------------------------------------------------------------------------

/// Nonce::increment == +1 mod 2^96 on the big-endian value, for all 2^96 nonces (every carry boundary)
#[kani::proof]
#[kani::unwind(14)]
fn nonce_increment_is_plus_one() {
    let mut n = any_nonce();
    let before = num(&n);
    n.increment();
    assert!(num(&n) == (before + 1) & M96);
    kani::cover!(before & 0xffff == 0xffff);
}

/// derived Ord on Nonce == numeric order of the big-endian value
#[kani::proof]
#[kani::unwind(14)]
fn nonce_order_is_numeric() {
    let a = any_nonce();
    let b = any_nonce();
    assert!((a < b) == (num(&a) < num(&b)));
    assert!((a == b) == (num(&a) == num(&b)));
    kani::cover!(a < b);
    kani::cover!(b < a);
}

/// set_msb writes byte 0 only
#[kani::proof]
#[kani::unwind(14)]
fn nonce_set_msb_frame() {
    let mut n = any_nonce();
    let o = n.clone();
    let v: u8 = kani::any();
    n.set_msb(v);
    assert!(n.0[0] == v);
    let mut i = 1;
    while i < 12 {
        assert!(n.0[i] == o.0[i]);
        i += 1;
    }
}

// ---------- decrypt_with_key: the acceptance rule --------------------------------------------------

/// Ok <=> nonce >= min_nonce && AEAD open succeeded; on Ok seen' = max(seen, nonce); nothing else changes;
/// on Err nothing changes; the AEAD is consulted with exactly that nonce and at most once.
#[kani::proof]
#[kani::unwind(14)]
#[kani::stub(ring::aead::LessSafeKey::open_in_place, stub_open_in_place)]
fn decrypt_with_key_contract() {
    let mut key = any_key();
    let n = any_nonce();
    let ok: bool = kani::any();
    unsafe { OPEN_OK = ok; OPEN_CALLS = 0; }
    let (min0, next0, seen0, send0) = (num(&key.min_nonce), num(&key.next_min_nonce), num(&key.seen_nonce), num(&key.send_nonce));
    let nn = num(&n);
    let mut buf = [0u8; 16];
    let r = ManuallyDrop::new(CryptoCore::decrypt_with_key(&mut key, n, &mut buf));
    let accepted = r.is_ok();
    assert!(accepted == (nn >= min0 && ok));
    assert!(num(&key.min_nonce) == min0 && num(&key.next_min_nonce) == next0 && num(&key.send_nonce) == send0);
    if accepted {
        assert!(num(&key.seen_nonce) == if nn > seen0 { nn } else { seen0 });
        assert!(unsafe { OPEN_CALLS } == 1);
        assert!(num(&Nonce(unsafe { OPEN_NONCE_SEEN })) == nn);
    } else {
        assert!(num(&key.seen_nonce) == seen0);
        assert!(unsafe { OPEN_CALLS } <= 1);
    }
    kani::cover!(accepted && nn > seen0);
    kani::cover!(accepted && nn < seen0);
    kani::cover!(!accepted && ok);
}

/// tick: min' = next_min, next_min' = seen + 1 (mod 2^96), seen and send counter unchanged
#[kani::proof]
#[kani::unwind(14)]
fn update_min_nonce_contract() {
    let mut key = any_key();
    let (next0, seen0, send0) = (num(&key.next_min_nonce), num(&key.seen_nonce), num(&key.send_nonce));
    key.update_min_nonce();
    assert!(num(&key.min_nonce) == next0);
    assert!(num(&key.next_min_nonce) == (seen0 + 1) & M96);
    assert!(num(&key.seen_nonce) == seen0);
    assert!(num(&key.send_nonce) == send0);
}

// ---------- replay window: inductive invariant over all histories -----------------------------------
// Ghost: one arbitrary previously accepted counter `a` with flags
//   in_a : a was accepted at some point,  b1 : ... before the most recent tick,  b2 : ... before the tick preceding the most recent one.
// Invariant J:  min <= next_min <= seen + 1,  seen has wire shape (so seen + 1 does not wrap),
//               in_a => a <= seen,  b1 => a < next_min,  b2 => a < min,  b2 => b1 => in_a.
// Because `a` is arbitrary, J preserved by every step == the statement for every accepted counter of every history.
struct Ghost { a: u128, in_a: bool, b1: bool, b2: bool }

fn inv(key: &CryptoKey, g: &Ghost) -> bool {
    let (min, next, seen) = (num(&key.min_nonce), num(&key.next_min_nonce), num(&key.seen_nonce));
    min <= next && next <= seen + 1 && wire_shape(&key.seen_nonce)
        && (!g.in_a || g.a <= seen) && (!g.b1 || g.a < next) && (!g.b2 || g.a < min)
        && (!g.b2 || g.b1) && (!g.b1 || g.in_a)
}

fn any_ghost() -> Ghost { Ghost { a: kani::any(), in_a: kani::any(), b1: kani::any(), b2: kani::any() } }

/// initial state of a key slot (as built by CryptoKey::new: all three zero) satisfies J with no accepted counter
#[kani::proof]
#[kani::unwind(14)]
fn window_inv_initial() {
    let key = ManuallyDrop::new(CryptoKey { key: ManuallyDrop::into_inner(opaque_key()), send_nonce: any_nonce(),
        min_nonce: Nonce::zero(), next_min_nonce: Nonce::zero(), seen_nonce: Nonce::zero() });
    let g = Ghost { a: kani::any(), in_a: false, b1: false, b2: false };
    assert!(inv(&key, &g));
}

/// step "deliver a datagram with counter n" from any J-state.
#[kani::proof]
#[kani::unwind(14)]
#[kani::stub(ring::aead::LessSafeKey::open_in_place, stub_open_in_place)]
fn window_inv_step_deliver() {
    let mut key = any_key();
    let g = any_ghost();
    kani::assume(inv(&key, &g));
    let n = any_nonce();
    kani::assume(wire_shape(&n));
    let ok: bool = kani::any();
    unsafe { OPEN_OK = ok; }
    let nn = num(&n);
    let seen0 = num(&key.seen_nonce);
    let min0 = num(&key.min_nonce);
    let r = ManuallyDrop::new(CryptoCore::decrypt_with_key(&mut key, n, &mut [0u8; 16]));
    if r.is_ok() {
        // sentence 1 of the property: accepted => higher than every counter accepted before the tick preceding the most recent tick
        assert!(!g.b2 || nn > g.a);
    }
    // "inside the window datagrams are accepted in any order"
    if ok && nn >= min0 { assert!(r.is_ok()); }
    // "a datagram newer than everything seen is always accepted"
    if ok && nn > seen0 { assert!(r.is_ok()); }
    // a rejected or forged datagram changes nothing; J is preserved for the old ghost and for the newly accepted counter
    assert!(inv(&key, &g));
    if r.is_ok() {
        let g_new = Ghost { a: nn, in_a: true, b1: false, b2: false };
        assert!(inv(&key, &g_new));
    }
    kani::cover!(r.is_ok() && g.b2);
    kani::cover!(r.is_err() && ok);
    kani::cover!(r.is_ok() && nn < seen0);
}

/// step "housekeeping tick" from any J-state: flags shift (b2' = b1, b1' = in_a) and J is preserved
#[kani::proof]
#[kani::unwind(14)]
fn window_inv_step_tick() {
    let mut key = any_key();
    let g = any_ghost();
    kani::assume(inv(&key, &g));
    key.update_min_nonce();
    let g2 = Ghost { a: g.a, in_a: g.in_a, b1: g.in_a, b2: g.b1 };
    assert!(inv(&key, &g2));
    kani::cover!(g.in_a && !g.b1);
}

/// two-tick bound: once some counter a >= n was accepted, n is rejected after two further ticks (whatever is delivered in between)
#[kani::proof]
#[kani::unwind(14)]
#[kani::stub(ring::aead::LessSafeKey::open_in_place, stub_open_in_place)]
fn window_two_tick_bound() {
    let mut key = any_key();
    let g = any_ghost();
    kani::assume(inv(&key, &g));
    kani::assume(g.in_a);
    let n = any_nonce();
    kani::assume(wire_shape(&n));
    kani::assume(num(&n) <= g.a);
    // anything may be delivered between the ticks
    let x1 = any_nonce(); kani::assume(wire_shape(&x1));
    let x2 = any_nonce(); kani::assume(wire_shape(&x2));
    unsafe { OPEN_OK = kani::any(); }
    key.update_min_nonce();
    let _ = ManuallyDrop::new(CryptoCore::decrypt_with_key(&mut key, x1, &mut [0u8; 16]));
    unsafe { OPEN_OK = kani::any(); }
    key.update_min_nonce();
    let _ = ManuallyDrop::new(CryptoCore::decrypt_with_key(&mut key, x2, &mut [0u8; 16]));
    unsafe { OPEN_OK = true; }
    let r = ManuallyDrop::new(CryptoCore::decrypt_with_key(&mut key, n, &mut [0u8; 16]));
    assert!(r.is_err());
}

// ---------- CryptoCore: all four slots ---------------------------------------------------------------

fn any_core() -> ManuallyDrop<CryptoCore> {
    let ck: usize = kani::any();
    kani::assume(ck < 4);
    ManuallyDrop::new(CryptoCore {
        rand: SystemRandom::new(),
        keys: [ManuallyDrop::into_inner(any_key()), ManuallyDrop::into_inner(any_key()), ManuallyDrop::into_inner(any_key()), ManuallyDrop::into_inner(any_key())],
        current_key: ck,
        nonce_half: kani::any(),
    })
}

/// every_second applies the tick to each of the four slots (and to nothing else)
#[kani::proof]
#[kani::unwind(14)]
fn every_second_ticks_all_slots() {
    let mut core = any_core();
    let ck0 = core.current_key;
    let half0 = core.nonce_half;
    let mut next0 = [0u128; 4];
    let mut seen0 = [0u128; 4];
    let mut send0 = [0u128; 4];
    let mut i = 0;
    while i < 4 { next0[i] = num(&core.keys[i].next_min_nonce); seen0[i] = num(&core.keys[i].seen_nonce); send0[i] = num(&core.keys[i].send_nonce); i += 1; }
    core.every_second();
    let mut i = 0;
    while i < 4 {
        assert!(num(&core.keys[i].min_nonce) == next0[i]);
        assert!(num(&core.keys[i].next_min_nonce) == (seen0[i] + 1) & M96);
        assert!(num(&core.keys[i].seen_nonce) == seen0[i]);
        assert!(num(&core.keys[i].send_nonce) == send0[i]);
        i += 1;
    }
    assert!(core.current_key == ck0 && core.nonce_half == half0);
}

/// rotate_key: slot id % 4 restarts at (0,0,0) in the core's own nonce half with bytes 1..=5 of the send counter zero;
/// the other three slots are untouched; the sending slot changes iff use_for_sending
#[kani::proof]
#[kani::unwind(14)]
#[kani::stub(ring::rand::SystemRandom::fill, stub_fill)]
#[kani::stub(log::max_level, no_log)]
fn rotate_key_contract() {
    let mut core = any_core();
    let id: u64 = kani::any();
    let use_for_sending: bool = kani::any();
    unsafe { RAND_BYTES = kani::any(); }
    let slot = (id % 4) as usize;
    let ck0 = core.current_key;
    let half = core.nonce_half;
    let mut snap = [[0u128; 4]; 4];
    let mut i = 0;
    while i < 4 {
        snap[i] = [num(&core.keys[i].min_nonce), num(&core.keys[i].next_min_nonce), num(&core.keys[i].seen_nonce), num(&core.keys[i].send_nonce)];
        i += 1;
    }
    // the old CryptoKey in the slot is overwritten (its drop glue only sees the opaque key: LessSafeKey has no Drop)
    core.rotate_key(ManuallyDrop::into_inner(opaque_key()), id, use_for_sending);
    let mut i = 0;
    while i < 4 {
        let k = &core.keys[i];
        if i == slot {
            assert!(num(&k.min_nonce) == 0 && num(&k.next_min_nonce) == 0 && num(&k.seen_nonce) == 0);
            assert!(k.send_nonce.0[0] == if half { 0x80 } else { 0x00 });
            assert!(k.send_nonce.0[1] == 0 && k.send_nonce.0[2] == 0 && k.send_nonce.0[3] == 0 && k.send_nonce.0[4] == 0 && k.send_nonce.0[5] == 0);
        } else {
            assert!(snap[i][0] == num(&k.min_nonce) && snap[i][1] == num(&k.next_min_nonce) && snap[i][2] == num(&k.seen_nonce) && snap[i][3] == num(&k.send_nonce));
        }
        i += 1;
    }
    assert!(core.current_key == if use_for_sending { slot } else { ck0 });
    assert!(core.current_key < 4);
    assert!(core.nonce_half == half);
}
