// Unit U9 (config): Config::merge_file / Config::merge_args / Config::into_config_file of src/config.rs (property C20).
// Contracts are generated from a field table written from the documentation: each setting takes the command-line value if
// given, else the file value, else what was there (the default); list-valued settings accumulate.
#![allow(unused_imports, dead_code, unused_variables, unused_mut)]
use vstd::prelude::*;
use std::collections::HashMap;
verus! {

//@ item type src/util.rs Duration
//@ end
//@ item enum src/types.rs Mode
//@ end
//@ item enum src/device.rs Type
//@ end
// CryptoConfig is crypto::Config
//@ item struct src/crypto/common.rs Config
//@   keeppub
//@   subst "pub struct Config" => "pub struct CryptoConfig" rule T1
//@ end
//@ item struct src/config.rs Config
//@   keeppub
//@ end
//@ item struct src/config.rs ConfigFileDevice
//@   keeppub
//@ end
//@ item struct src/config.rs ConfigFileBeacon
//@   keeppub
//@ end
//@ item struct src/config.rs ConfigFileStatsd
//@   keeppub
//@ end
//@ item struct src/config.rs ConfigFile
//@   keeppub
//@ end
//@ item struct src/config.rs Args
//@   keeppub
//@   keep type_, device_path, fix_rp_filter, mode, password, private_key, public_key, trusted_keys, algorithms, claims, no_auto_claim, device, listen, peers, peer_timeout, keepalive, switch_timeout, beacon_store, beacon_load, beacon_interval, beacon_password, ip, advertise_addresses, ifup, ifdown, no_port_forwarding, daemon, pid_file, stats_file, statsd_server, statsd_prefix, user, group, hook
//@ end

// ---- vocabulary: what a source "sets" ----
pub open spec fn flag(set: bool, to: bool) -> Option<bool> { if set { Some(to) } else { None } }
pub open spec fn optlist(o: Option<Vec<String>>) -> Seq<String> { match o { Some(v) => v@, None => Seq::empty() } }
pub open spec fn dev_type(f: ConfigFile) -> Option<Type> { match f.device { Some(d) => d.type_, None => None } }
pub open spec fn dev_name(f: ConfigFile) -> Option<String> { match f.device { Some(d) => d.name, None => None } }
pub open spec fn dev_path(f: ConfigFile) -> Option<String> { match f.device { Some(d) => d.path, None => None } }
pub open spec fn dev_rp(f: ConfigFile) -> Option<bool> { match f.device { Some(d) => d.fix_rp_filter, None => None } }
pub open spec fn bc_store(f: ConfigFile) -> Option<String> { match f.beacon { Some(b) => b.store, None => None } }
pub open spec fn bc_load(f: ConfigFile) -> Option<String> { match f.beacon { Some(b) => b.load, None => None } }
pub open spec fn bc_interval(f: ConfigFile) -> Option<Duration> { match f.beacon { Some(b) => b.interval, None => None } }
pub open spec fn bc_password(f: ConfigFile) -> Option<String> { match f.beacon { Some(b) => b.password, None => None } }
pub open spec fn sd_server(f: ConfigFile) -> Option<String> { match f.statsd { Some(s) => s.server, None => None } }
pub open spec fn sd_prefix(f: ConfigFile) -> Option<String> { match f.statsd { Some(s) => s.prefix, None => None } }

// R5 pinned statements (HashMap iteration / str slicing are not typed by this Verus); their text is pinned
#[verifier::external_body]
fn pinned_merge_hooks_from_file(hooks: &mut HashMap<String, String>, from: HashMap<String, String>)
{ for (k, v) in from { hooks.insert(k, v); } }
#[verifier::external_body]
fn pinned_merge_hook_args(hook: &mut Option<String>, hooks: &mut HashMap<String, String>, from: Vec<String>)
{ unimplemented!() }

impl Config {
//@ fn src/config.rs Config::merge_file
//@   contract
/*@CONTRACT_FILE@*/
//@   subst "for (k, v) in file.hooks {\n            self.hooks.insert(k, v);\n        }" => "pinned_merge_hooks_from_file(&mut self.hooks, file.hooks);" rule R5
//@ end

//@ fn src/config.rs Config::merge_args
//@   contract
/*@CONTRACT_ARGS@*/
//@   replace from "for s in args.hook {" to "self.hook = Some(s);\n            }\n        }"
        pinned_merge_hook_args(&mut self.hook, &mut self.hooks, args.hook);
//@ end
}

} // verus!
fn main() {}
