// Unit U9 (config): Config::merge_file / Config::merge_args of src/config.rs (property C20) as four contiguous statement ranges each
// (the whole-function VC exceeds the solver limit).  Contracts are generated from a field table written from the documentation:
// each setting takes the command-line value if given, else the file value, else what was there (the default); lists accumulate.
#![allow(unused_imports, dead_code, unused_variables, unused_mut)]
use vstd::prelude::*;
use std::collections::HashMap;
verus! {

//@ item type src/util.rs Duration
//@ end
//@ item enum src/types.rs Mode
//@ end
//@ item enum src/device.rs Type
//@ end
// CryptoConfig is crypto::Config
//@ item struct src/crypto/common.rs Config
//@   keeppub
//@   subst "pub struct Config" => "pub struct CryptoConfig" rule T1
//@ end
//@ item struct src/config.rs Config
//@   keeppub
//@ end
//@ item struct src/config.rs ConfigFileDevice
//@   keeppub
//@ end
//@ item struct src/config.rs ConfigFileBeacon
//@   keeppub
//@ end
//@ item struct src/config.rs ConfigFileStatsd
//@   keeppub
//@ end
//@ item struct src/config.rs ConfigFile
//@   keeppub
//@ end
//@ item struct src/config.rs Args
//@   keeppub
//@   keep type_, device_path, fix_rp_filter, mode, password, private_key, public_key, trusted_keys, algorithms, claims, no_auto_claim, device, listen, peers, peer_timeout, keepalive, switch_timeout, beacon_store, beacon_load, beacon_interval, beacon_password, ip, advertise_addresses, ifup, ifdown, no_port_forwarding, daemon, pid_file, stats_file, statsd_server, statsd_prefix, user, group, hook
//@ end

// ---- vocabulary: what a source "sets" ----
pub open spec fn flag(set: bool, to: bool) -> Option<bool> { if set { Some(to) } else { None } }
pub open spec fn optlist(o: Option<Vec<String>>) -> Seq<String> { match o { Some(v) => v@, None => Seq::empty() } }
pub open spec fn dev_type(f: ConfigFile) -> Option<Type> { match f.device { Some(d) => d.type_, None => None } }
pub open spec fn dev_name(f: ConfigFile) -> Option<String> { match f.device { Some(d) => d.name, None => None } }
pub open spec fn dev_path(f: ConfigFile) -> Option<String> { match f.device { Some(d) => d.path, None => None } }
pub open spec fn dev_rp(f: ConfigFile) -> Option<bool> { match f.device { Some(d) => d.fix_rp_filter, None => None } }
pub open spec fn bc_store(f: ConfigFile) -> Option<String> { match f.beacon { Some(b) => b.store, None => None } }
pub open spec fn bc_load(f: ConfigFile) -> Option<String> { match f.beacon { Some(b) => b.load, None => None } }
pub open spec fn bc_interval(f: ConfigFile) -> Option<Duration> { match f.beacon { Some(b) => b.interval, None => None } }
pub open spec fn bc_password(f: ConfigFile) -> Option<String> { match f.beacon { Some(b) => b.password, None => None } }
pub open spec fn sd_server(f: ConfigFile) -> Option<String> { match f.statsd { Some(s) => s.server, None => None } }
pub open spec fn sd_prefix(f: ConfigFile) -> Option<String> { match f.statsd { Some(s) => s.prefix, None => None } }

// R5 pinned statements (HashMap iteration / str slicing are not typed by this Verus); their text is pinned
#[verifier::external_body]
fn pinned_merge_hooks_from_file(hooks: &mut HashMap<String, String>, from: HashMap<String, String>)
{ for (k, v) in from { hooks.insert(k, v); } }
#[verifier::external_body]
fn pinned_merge_hook_args(hook: &mut Option<String>, hooks: &mut HashMap<String, String>, from: Vec<String>)
{ unimplemented!() }

//@ item const src/config.rs DEFAULT_PEER_TIMEOUT
//@ end
impl CryptoConfig {
    #[verifier::external_body]
    fn default() -> (r: CryptoConfig) { unimplemented!() }
}
impl Config {
// ---- Config::merge_file in four contiguous ranges ----
/*@BLOCKS_FILE@*/
// ---- Config::merge_args in four contiguous ranges ----
/*@BLOCKS_ARGS@*/
//@ fn src/config.rs Default for Config::default
//@   ret r
//@   contract
        ensures
            // the documented defaults (vpncloud.adoc): tun device "vpncloud%d", listen 3210, peer timeout 300 s, no explicit keepalive,
            // beacon interval 3600 s, mode normal, switch timeout 300 s, auto-claim and port forwarding on, not daemonized, empty lists
            r.device_type == Type::Tun, r.device_name@ == "vpncloud%d"@, r.device_path is None, !r.fix_rp_filter,
            r.ip is None, r.advertise_addresses@.len() == 0, r.ifup is None, r.ifdown is None,
            r.listen@ == "3210"@, r.peers@.len() == 0, r.peer_timeout == 300, r.keepalive is None,
            r.beacon_store is None, r.beacon_load is None, r.beacon_interval == 3600, r.beacon_password is None,
            r.mode == Mode::Normal, r.switch_timeout == 300, r.claims@.len() == 0, r.auto_claim, r.port_forwarding, !r.daemonize,
            r.pid_file is None, r.stats_file is None, r.statsd_server is None, r.statsd_prefix is None, r.user is None, r.group is None, r.hook is None,
//@ end

//@ fn src/config.rs Config::into_config_file
//@   ret file_
//@   contract
/*@CONTRACT_INTO@*/
//@ end
}

} // verus!
fn main() {}
