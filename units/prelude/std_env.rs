// ---- trusted prelude: external types and std contracts (listed in every evidence file) ----
#[verifier::external_type_specification]
#[verifier::external_body]
pub struct ExSocketAddr(std::net::SocketAddr);
#[verifier::external_type_specification]
#[verifier::external_body]
pub struct ExFnvHasher(FnvHasher);
#[verifier::reject_recursive_types(H)]
#[verifier::external_type_specification]
#[verifier::external_body]
pub struct ExBuildHasherDefault<H>(std::hash::BuildHasherDefault<H>);

pub broadcast axiom fn axiom_fnv_valid()
    ensures #[trigger] builds_valid_hashers::<Hash>();
pub broadcast axiom fn axiom_address_key_model()
    ensures #[trigger] obeys_key_model::<Address>();

pub assume_specification<T: Ord> [std::cmp::min] (a: T, b: T) -> (r: T)
    ensures
        T::obeys_cmp_spec() ==> r == (if a.cmp_spec(&b) == core::cmp::Ordering::Greater { b } else { a }),
;

// SocketAddr equality is an equivalence that coincides with spec equality (std: derived PartialEq on plain data)
pub assume_specification [<SocketAddr as PartialEq>::eq] (a: &SocketAddr, b: &SocketAddr) -> (r: bool)
    ensures r == (*a == *b);
