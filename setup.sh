#!/bin/bash
# Builds what the checks need from files on disk only (offline): dependency rlibs for Verus,
# and a warm Kani build of the crate's dependencies.
set -e
cd "$(dirname "$0")"
export CARGO_NET_OFFLINE=true
python3 - <<'PY'
import sys
sys.path.insert(0, 'tools')
import engine
print(engine.ensure_rlibs())
PY
# warm the Kani target dir (dependencies incl. ring); failures here are not fatal, checks build lazily
mkdir -p /var/tmp/vpv/setup && rsync -a --exclude target --exclude .git /repo/ /var/tmp/vpv/setup/repo/
( cd /var/tmp/vpv/setup/repo && CARGO_TARGET_DIR=/verif/.cache/kani-target timeout 1200 cargo kani --only-codegen >/dev/null 2>&1 || true )
rm -rf /var/tmp/vpv/setup
echo setup done
